//! Source-text generators shared by c10 (parser) and c09 (compiler): grammar-generated
//! valid rules, token-level mutations, deep nesting, long operator chains, non-ASCII,
//! invalid UTF-8 and random bytes. Included with #[path] by the binaries.
#![allow(dead_code)]
use verif_harness::util::*;
use yara_x_parser::cst::Event;
use yara_x_parser::Parser;

const IDENTS: &[&str] = &["a", "b", "foo", "x1", "_y", "pe", "is_dll", "sections", "name", "i", "j"];
const PATS: &[&str] = &["$a", "$b", "$c1", "$"];

fn pick_s(rng: &mut Rng, xs: &[&str]) -> String { rng.pick(xs).to_string() }

pub fn gen_expr(rng: &mut Rng, d: u32) -> String {
    let c = if d == 0 { rng.below(10) } else { rng.below(20) };
    match c {
        0 => format!("{}", rng.below(300)),
        1 => pick_s(rng, &["0x1F", "0o17", "1KB", "2MB", "1_000", "3.14", "0.5"]),
        2 => "filesize".into(),
        3 => pick_s(rng, IDENTS),
        4 => format!("#{}", &pick_s(rng, PATS)[1..]),
        5 => format!("@{}[{}]", &pick_s(rng, PATS)[1..], 1 + rng.below(3)),
        6 => format!("!{}", &pick_s(rng, PATS)[1..]),
        7 => format!("{}.{}", pick_s(rng, IDENTS), pick_s(rng, IDENTS)),
        8 => pick_s(rng, &["\"str\"", "\"a\\x41b\"", "\"\"", "entrypoint"]),
        9 => format!("#{} in (0..{})", &pick_s(rng, PATS)[1..], rng.below(100)),
        10 => format!("-{}", gen_expr(rng, d - 1)),
        11 => format!("~{}", gen_expr(rng, d - 1)),
        12 => format!("({})", gen_expr(rng, d - 1)),
        13 | 14 | 15 => format!("{} {} {}", gen_expr(rng, d - 1),
                pick_s(rng, &["+", "-", "*", "\\", "%", "<<", ">>", "&", "|", "^"]), gen_expr(rng, d - 1)),
        16 => format!("{}[{}]", pick_s(rng, IDENTS), gen_expr(rng, d - 1)),
        17 => format!("{}({})", pick_s(rng, IDENTS), (0..rng.below(3)).map(|_| gen_expr(rng, d - 1)).collect::<Vec<_>>().join(", ")),
        18 => format!("{}.{}({})", pick_s(rng, IDENTS), pick_s(rng, IDENTS), gen_expr(rng, d - 1)),
        _ => format!("{}.{}[{}].{}", pick_s(rng, IDENTS), pick_s(rng, IDENTS), rng.below(4), pick_s(rng, IDENTS)),
    }
}

fn gen_pattern_set(rng: &mut Rng) -> String {
    match rng.below(4) {
        0 => "them".into(),
        1 => "($a*)".into(),
        2 => "($a, $b)".into(),
        _ => "($a*, $b, $c1)".into(),
    }
}
fn gen_quantifier(rng: &mut Rng) -> String {
    match rng.below(6) {
        0 => "all".into(), 1 => "any".into(), 2 => "none".into(),
        3 => format!("{}", 1 + rng.below(3)),
        4 => format!("{}%", 10 * (1 + rng.below(9))),
        _ => gen_expr(rng, 1),
    }
}

pub fn gen_bool(rng: &mut Rng, d: u32) -> String {
    let c = if d == 0 { rng.below(12) } else { rng.below(24) };
    match c {
        0 => "true".into(),
        1 => "false".into(),
        2 => pick_s(rng, PATS),
        3 => format!("{} at {}", pick_s(rng, PATS), gen_expr(rng, 0)),
        4 => format!("{} in ({}..{})", pick_s(rng, PATS), gen_expr(rng, 0), gen_expr(rng, 0)),
        5 | 6 => format!("{} {} {}", gen_expr(rng, d.min(1)),
                pick_s(rng, &["==", "!=", "<", "<=", ">", ">=", "contains", "icontains", "startswith", "istartswith", "endswith", "iendswith", "iequals", "matches"]),
                gen_expr(rng, d.min(1))),
        7 => format!("{} of {}", gen_quantifier(rng), gen_pattern_set(rng)),
        8 => format!("{} of {} at {}", gen_quantifier(rng), gen_pattern_set(rng), gen_expr(rng, 0)),
        9 => format!("{} of {} in (0..{})", gen_quantifier(rng), gen_pattern_set(rng), rng.below(99)),
        10 => gen_expr(rng, d.min(1)),
        11 => format!("{} matches /ab+c/i", pick_s(rng, IDENTS)),
        12 | 13 => format!("{} and {}", gen_bool(rng, d - 1), gen_bool(rng, d - 1)),
        14 | 15 => format!("{} or {}", gen_bool(rng, d - 1), gen_bool(rng, d - 1)),
        16 => format!("not {}", gen_bool(rng, d - 1)),
        17 => format!("defined {}", gen_bool(rng, d - 1)),
        18 => format!("({})", gen_bool(rng, d - 1)),
        19 => format!("for {} of {} : ( {} )", gen_quantifier(rng), gen_pattern_set(rng), pick_s(rng, &["$", "$ at 0", "# > 1", "@ < 10 and $"])),
        20 => format!("for {} i in (0..{}) : ( {} )", gen_quantifier(rng), rng.below(9), gen_bool(rng, d - 1)),
        21 => format!("for {} i, j in {} : ( {} )", gen_quantifier(rng), pick_s(rng, &["(1, 2, 3)", "pe.sections", "x1"]), gen_bool(rng, d - 1)),
        22 => format!("with x1 = {}, _y = {} : ( {} )", gen_expr(rng, 1), gen_expr(rng, 0), gen_bool(rng, d - 1)),
        _ => format!("{} of ({}, {})", gen_quantifier(rng), gen_bool(rng, 0), gen_bool(rng, 0)),
    }
}

fn gen_hex(rng: &mut Rng, d: u32) -> String {
    let n = 1 + rng.below(4);
    let mut v = vec![];
    for k in 0..n {
        let c = if d == 0 { rng.below(4) } else { rng.below(6) };
        v.push(match c {
            0 | 1 => pick_s(rng, &["01", "AB", "ff", "??", "4?", "?F", "~0A", "~?1"]),
            2 => format!("{} {}", pick_s(rng, &["10", "A0"]), pick_s(rng, &["20", "b1"])),
            3 if k > 0 && k + 1 < n => pick_s(rng, &["[2]", "[1-3]", "[4-]", "[-]", "[ 2 - 4 ]"]),
            3 => "00".into(),
            _ => format!("( {} | {} )", gen_hex(rng, d - 1), gen_hex(rng, d - 1)),
        });
    }
    v.join(" ")
}

pub fn gen_rule(rng: &mut Rng, id: usize, depth: u32) -> String {
    let mut s = String::new();
    s.push_str(&pick_s(rng, &["", "", "", "private ", "global ", "private global ", "global private "]));
    s.push_str(&format!("rule r{} ", id));
    if rng.chance(1, 4) { s.push_str(&pick_s(rng, &[": t1 ", ": t1 t2 ", ": foo "])); }
    s.push_str("{ ");
    if rng.chance(1, 4) {
        s.push_str("meta: ");
        for _ in 0..(1 + rng.below(3)) {
            s.push_str(&format!("{} = {} ", pick_s(rng, IDENTS), pick_s(rng, &["1", "-2", "\"s\"", "true", "false", "1.5", "-0.5"])));
        }
    }
    if rng.chance(1, 2) {
        s.push_str("strings: ");
        for p in ["$a", "$b", "$c1"].iter().take(1 + rng.below(3) as usize) {
            let v = match rng.below(5) {
                0 | 1 => format!("{}{}", pick_s(rng, &["\"text\"", "\"a\\\"b\"", "\"x\\n\""]),
                                 pick_s(rng, &["", " ascii", " wide nocase", " fullword private", " xor", " xor(1)", " xor(1-5)", " base64", " base64wide(\"abc\")"])),
                2 => format!("{}{}", pick_s(rng, &["/ab+c/", "/a[0-9]{2}/i", "/x\\/y/s", "/(a|b)*/is"]), pick_s(rng, &["", " wide", " nocase ascii"])),
                _ => format!("{{ {} }}{}", gen_hex(rng, 1), pick_s(rng, &["", " private"])),
            };
            s.push_str(&format!("{} = {} ", p, v));
        }
    }
    s.push_str(&format!("condition: {} }}", gen_bool(rng, depth)));
    s
}

const SEPS: &[&str] = &[" ", " ", " ", "\n", "\t", "  ", " /* c */ ", " // c\n", "\r\n", "\u{a0}", " /* a\nb */ ", "\u{2003}", "\n\n", "\r",
    // comments with 2/3/4-byte characters on the first, middle and last line; more tokens follow on the same line
    " /* a\n\u{e9}\u{1f600} */ ", " /* \u{1f600}\nb */ ", " /* \u{20ac}\r\n\u{1f600}\u{1f600}\r\n\u{e9} */ ", "/* \n\u{1f600} */", " /* \u{1f600}\u{e9}\u{20ac} */ ",
    " // \u{1f600}\n", " /* x\n\n\u{4e2d}\u{1f600}y */"];

/// replace some single spaces by other separators (comments, newlines, non-ASCII spaces)
pub fn vary_whitespace(rng: &mut Rng, s: &str, p: u64) -> String {
    let mut out = String::new();
    let mut in_str = false;
    let mut prev = ' ';
    for c in s.chars() {
        if c == '"' && prev != '\\' { in_str = !in_str; }
        if c == ' ' && !in_str && rng.chance(p, 10) { out.push_str(&pick_s(rng, SEPS)); } else { out.push(c); }
        prev = c;
    }
    out
}

pub fn gen_valid(rng: &mut Rng) -> String {
    let mut s = String::new();
    if rng.chance(1, 5) { s.push_str("import \"pe\" "); }
    if rng.chance(1, 12) { s.push_str("include \"other.yar\" "); }
    let n = 1 + rng.below(2) as usize;
    for i in 0..n {
        let d = rng.below(3) as u32;
        s.push_str(&gen_rule(rng, i, d));
        if i + 1 < n { s.push_str(&pick_s(rng, &[" ", "\n", ""])); }
    }
    let p = rng.below(5);
    vary_whitespace(rng, &s, p)
}

/// spans of the tokens the real parser sees in `src`
pub fn token_spans(src: &[u8]) -> Vec<(usize, usize)> {
    catch(std::panic::AssertUnwindSafe(|| {
        Parser::new(src).filter_map(|e| match e { Event::Token { span, .. } => Some((span.start(), span.end())), _ => None }).collect::<Vec<_>>()
    })).unwrap_or_default()
}

const VOCAB: &[&str] = &["rule", "{", "}", "(", ")", "[", "]", "condition", ":", "strings", "meta", "=", "true", "and", "or", "not",
    "$a", "#a", "@a", "!a", "of", "them", "for", "in", "all", "any", "..", ".", ",", "1", "0x10", "\"s\"", "/re/", "==", "<", "+", "-", "%",
    "*", "\\", "import", "include", "global", "private", "at", "with", "defined", "|", "~", "??", "AB", "filesize", "x", "\"", "/*", "*/", "//", "\n", "é", "\u{a0}", "€", "😀"];

/// token-level mutation of a valid source
pub fn mutate(rng: &mut Rng, src: &[u8]) -> Vec<u8> {
    let spans = token_spans(src);
    let mut toks: Vec<Vec<u8>> = spans.iter().map(|(a, b)| src[*a..*b].to_vec()).collect();
    if toks.is_empty() { return src.to_vec(); }
    let k = 1 + rng.below(3);
    for _ in 0..k {
        if toks.is_empty() { break; }
        let i = rng.below(toks.len() as u64) as usize;
        match rng.below(9) {
            0 => { toks.remove(i); }
            1 => { let t = toks[i].clone(); toks.insert(i, t); }
            2 => { let j = rng.below(toks.len() as u64) as usize; toks.swap(i, j); }
            3 => { toks.insert(i, rng.pick(VOCAB).as_bytes().to_vec()); toks.insert(i + 1, b" ".to_vec()); }
            4 => { toks[i] = rng.pick(&["{", "}", "(", ")", "[", "]", "\"", "/*"]).as_bytes().to_vec(); }
            5 => { toks.insert(i, rng.pick(&["é", "\u{a0}", "€", "😀", "\u{2003}"]).as_bytes().to_vec()); }
            6 => { let b = *rng.pick(&[0xffu8, 0xc3, 0x80, 0xe2, 0xf0, 0xc0, 0xed]); toks.insert(i, vec![b]); }
            7 => { toks.truncate(i); }
            _ => { let t = &mut toks[i]; if !t.is_empty() { let p = rng.below(t.len() as u64) as usize; t.truncate(p); } }
        }
    }
    toks.concat()
}

pub fn gen_deep(rng: &mut Rng, max: u64) -> String {
    let n = 2 + rng.below(max) as usize;
    let body = match rng.below(8) {
        0 => format!("{}true{}", "(".repeat(n), ")".repeat(n)),
        1 => format!("{}true", "not ".repeat(n)),
        2 => format!("1{}  == 1", " + 1".repeat(n)),
        3 => format!("true{}", " and true".repeat(n)),
        4 => format!("{}1{} == 1", "(".repeat(n), ")".repeat(n)),
        5 => format!("{}1 == 1", "-".repeat(n)),
        6 => format!("{}true", "(".repeat(n)),           // unbalanced
        _ => format!("a{}", ".b".repeat(n)),
    };
    if rng.chance(1, 6) {
        let h = format!("{}01{}", "( ".repeat(n.min(12)), " )".repeat(n.min(12)));
        format!("rule d {{ strings: $a = {{ {} }} condition: $a }}", h)
    } else {
        format!("rule d {{ condition: {} }}", body)
    }
}

pub fn gen_soup(rng: &mut Rng) -> Vec<u8> {
    let n = 1 + rng.below(25);
    let mut s = Vec::new();
    for _ in 0..n {
        s.extend_from_slice(rng.pick(VOCAB).as_bytes());
        if rng.chance(3, 4) { s.push(b' '); }
    }
    s
}

pub fn gen_bytes(rng: &mut Rng) -> Vec<u8> {
    let n = rng.below(40);
    (0..n).map(|_| if rng.chance(1, 2) { rng.below(256) as u8 } else { *rng.pick(b"rule{}():$a=\" \n/*") }).collect()
}

/// one generated source with the name of the stream it came from
pub fn gen_source(rng: &mut Rng) -> (String, Vec<u8>) {
    match rng.below(20) {
        0..=6 => ("valid".into(), gen_valid(rng).into_bytes()),
        7..=12 => { let v = gen_valid(rng); ("mutated".into(), mutate(rng, v.as_bytes())) }
        13 | 14 => ("deep".into(), gen_deep(rng, 14).into_bytes()),
        15 | 16 => ("soup".into(), gen_soup(rng)),
        17 => ("random_bytes".into(), gen_bytes(rng)),
        18 => { // invalid UTF-8 at a random position of a valid rule
            let mut v = gen_valid(rng).into_bytes();
            let p = rng.below(v.len() as u64 + 1) as usize;
            let bad: &[u8] = *rng.pick(&[&[0xffu8][..], &[0xc3], &[0xe2, 0x82], &[0xf0, 0x9f, 0x98], &[0x80], &[0xed, 0xa0, 0x80], &[0xc0, 0xaf]]);
            for (k, b) in bad.iter().enumerate() { v.insert(p + k, *b); }
            ("invalid_utf8".into(), v)
        }
        _ => { // two mutated rules back to back, no separator (the second item starts with an empty deque)
            let a = gen_valid(rng); let b = gen_valid(rng);
            let mut v = mutate(rng, a.as_bytes()); v.extend_from_slice(&mutate(rng, b.as_bytes()));
            ("mutated_pair".into(), v)
        }
    }
}

/// sources that keep the tokenizer switching modes: hex patterns and jumps with junk inside,
/// unbalanced braces/brackets, bytes the lexers do not know, input ending inside a hex mode
pub fn gen_hexy(rng: &mut Rng) -> Vec<u8> {
    const HEX: &[&str] = &["01", "AB", "ff", "??", "4?", "~0A", "(", ")", "|", "[", "]", "[2]", "[1-3]", "[4-]", "[-]", "[ 2 - 4 ]", "[0x10]", "[1KB]",
        "{", "}", "zz", "x", "-", "1", "0o7", "\"s\"", "/* c */", "// c\n", "\n", "\r\n", "\u{a0}", "\u{3000}", "\u{e9}", "\u{1f600}", "$a", "=", "condition", ":"];
    let mut v: Vec<u8> = Vec::new();
    v.extend_from_slice(b"rule h { strings: ");
    for k in 0..(1 + rng.below(3)) {
        v.extend_from_slice(format!("$a{} = ", k).as_bytes());
        if rng.chance(5, 6) { v.extend_from_slice(b"{ "); }
        for _ in 0..(1 + rng.below(8)) {
            if rng.chance(1, 14) { v.extend_from_slice(*rng.pick(&[&[0xffu8][..], &[0xe2, 0x80], &[0xc3], &[0xe2, 0x81], &[0xf0, 0x9f], &[0x80]])); }
            else { v.extend_from_slice(rng.pick(HEX).as_bytes()); }
            if rng.chance(4, 5) { v.push(b' '); }
        }
        if rng.chance(5, 6) { v.extend_from_slice(b"} "); }
    }
    if rng.chance(5, 6) { v.extend_from_slice(b"condition: $a0 }"); }
    if rng.chance(1, 6) { let p = rng.below(v.len() as u64) as usize; v.truncate(p); }
    v
}
