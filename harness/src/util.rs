//! Shared helpers: one PRNG, Coq literal printers, case-file writer.
#![allow(dead_code)]
use std::fmt::Write as _;
use std::fs;
use std::path::{Path, PathBuf};

/// SplitMix64: every random choice of every generator derives from one state.
#[derive(Clone)]
pub struct Rng(pub u64);
impl Rng {
    pub fn new(seed: u64) -> Self { Rng(seed ^ 0x9E37_79B9_7F4A_7C15) }
    pub fn next(&mut self) -> u64 {
        self.0 = self.0.wrapping_add(0x9E37_79B9_7F4A_7C15);
        let mut z = self.0;
        z = (z ^ (z >> 30)).wrapping_mul(0xBF58_476D_1CE4_E5B9);
        z = (z ^ (z >> 27)).wrapping_mul(0x94D0_49BB_1331_11EB);
        z ^ (z >> 31)
    }
    pub fn below(&mut self, n: u64) -> u64 { if n == 0 { 0 } else { self.next() % n } }
    pub fn range(&mut self, lo: i64, hi: i64) -> i64 { lo + self.below((hi - lo + 1) as u64) as i64 }
    pub fn chance(&mut self, num: u64, den: u64) -> bool { self.below(den) < num }
    pub fn pick<'a, T>(&mut self, xs: &'a [T]) -> &'a T { &xs[self.below(xs.len() as u64) as usize] }
    pub fn fork(&mut self) -> Rng { Rng(self.next()) }
}

pub fn coq_bool(b: bool) -> &'static str { if b { "true" } else { "false" } }
pub fn coq_nat(n: usize) -> String { format!("{}%nat", n) }
pub fn coq_n(n: u64) -> String { format!("{}%N", n) }
pub fn coq_z(n: i128) -> String { if n < 0 { format!("({})%Z", n) } else { format!("{}%Z", n) } }
pub fn coq_list<T, F: Fn(&T) -> String>(xs: &[T], f: F) -> String {
    let mut s = String::from("[");
    for (i, x) in xs.iter().enumerate() {
        if i > 0 { s.push_str("; "); }
        s.push_str(&f(x));
    }
    s.push(']');
    s
}
pub fn coq_option<T, F: Fn(&T) -> String>(x: &Option<T>, f: F) -> String {
    match x { None => "None".into(), Some(v) => format!("(Some {})", f(v)) }
}
/// bytes as a list of N
pub fn coq_bytes(b: &[u8]) -> String { format!("{}%N", coq_list(b, |x| format!("{}", x))) }

pub fn hex(b: &[u8]) -> String { let mut s = String::new(); for x in b { let _ = write!(s, "{:02x}", x); } s }
pub fn unhex(s: &str) -> Vec<u8> {
    (0..s.len() / 2).map(|i| u8::from_str_radix(&s[2 * i..2 * i + 2], 16).unwrap()).collect()
}

pub fn json_str(s: &str) -> String { serde_json::to_string(s).unwrap() }

/// A shard of cases: `cases_<k>.v` evaluated by coqc plus `cases_<k>.jsonl`
/// holding, per case, what is needed to replay it on the implementation.
/// The .v file ends with `Eval vm_compute in failing.` (indices, within the
/// shard, of the cases on which model and implementation disagree) and
/// `Eval vm_compute in violating.` (cases on which the implementation's own
/// output violates the property's boolean specification).
pub struct Shards {
    dir: PathBuf,
    prelude: String,
    per_shard: usize,
    cur: Vec<(String, String)>, // (coq term, replay json)
    pub shard_count: usize,
    pub total: usize,
}
impl Shards {
    pub fn new(dir: &Path, prelude: &str, per_shard: usize) -> Self {
        fs::create_dir_all(dir).unwrap();
        if let Ok(rd) = fs::read_dir(dir) {
            for e in rd.flatten() {
                let n = e.file_name().to_string_lossy().to_string();
                if n.starts_with("cases_") || n.starts_with(".cases_") { let _ = fs::remove_file(e.path()); }
            }
        }
        Shards { dir: dir.into(), prelude: prelude.into(), per_shard, cur: vec![], shard_count: 0, total: 0 }
    }
    pub fn push(&mut self, coq_case: String, replay_json: String) {
        self.cur.push((coq_case, replay_json));
        self.total += 1;
        if self.cur.len() >= self.per_shard { self.flush(); }
    }
    pub fn flush(&mut self) {
        if self.cur.is_empty() { return; }
        let k = self.shard_count;
        let mut v = String::new();
        v.push_str(&self.prelude);
        v.push_str("\nDefinition cases := [\n");
        for (i, (c, _)) in self.cur.iter().enumerate() {
            if i > 0 { v.push_str(";\n"); }
            let _ = write!(v, "  ({}%N, {})", i, c);
        }
        v.push_str("\n].\n");
        v.push_str("Definition failing := map fst (filter (fun c => negb (check_case (snd c))) cases).\n");
        v.push_str("Definition violating := map fst (filter (fun c => negb (spec_case (snd c))) cases).\n");
        v.push_str("Eval vm_compute in failing.\n");
        v.push_str("Eval vm_compute in violating.\n");
        fs::write(self.dir.join(format!("cases_{}.v", k)), v).unwrap();
        let mut j = String::new();
        for (_, r) in &self.cur { j.push_str(r); j.push('\n'); }
        fs::write(self.dir.join(format!("cases_{}.jsonl", k)), j).unwrap();
        self.cur.clear();
        self.shard_count += 1;
    }
}

pub fn arg_val(args: &[String], name: &str) -> Option<String> {
    args.iter().position(|a| a == name).and_then(|i| args.get(i + 1).cloned())
}
pub fn arg_u64(args: &[String], name: &str, default: u64) -> u64 {
    arg_val(args, name).and_then(|v| v.parse().ok()).unwrap_or(default)
}
pub fn arg_flag(args: &[String], name: &str) -> bool { args.iter().any(|a| a == name) }

/// Run a closure, turning a panic into Err(message).
pub fn catch<T, F: FnOnce() -> T + std::panic::UnwindSafe>(f: F) -> Result<T, String> {
    match std::panic::catch_unwind(f) {
        Ok(v) => Ok(v),
        Err(e) => Err(if let Some(s) = e.downcast_ref::<String>() { s.clone() }
                      else if let Some(s) = e.downcast_ref::<&str>() { s.to_string() }
                      else { "panic".into() }),
    }
}
pub fn quiet_panics() { if std::env::var_os("VERIF_LOUD_PANICS").is_none() { std::panic::set_hook(Box::new(|_| {})); } }

/// Statistics of the generated input distribution, printed into the evidence.
#[derive(Default)]
pub struct Stats(pub std::collections::BTreeMap<String, u64>);
impl Stats {
    pub fn inc(&mut self, k: &str) { *self.0.entry(k.to_string()).or_default() += 1; }
    pub fn add(&mut self, k: &str, n: u64) { *self.0.entry(k.to_string()).or_default() += n; }
    pub fn json(&self) -> String {
        let v: Vec<String> = self.0.iter().map(|(k, v)| format!("{}:{}", json_str(k), v)).collect();
        format!("{{{}}}", v.join(","))
    }
}
