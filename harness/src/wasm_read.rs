//! A small reader of WebAssembly binaries: just enough to list the imported functions and to
//! decode the bodies of the functions of the module `Compiler::emit_wasm_file` writes (the code
//! lib/src/compiler/emit.rs emits through walrus).  Anything it does not know is an error, never
//! skipped.  Used by c02.rs to compare the emitted code with coq/Cond/Emit.v instruction by
//! instruction.
#![allow(dead_code)]

#[derive(Clone, Debug, PartialEq)]
pub enum W {
    /// block type: -1 none, 0x7f i32, 0x7e i64, 0x7d f32, 0x7c f64, or a type index
    Block(i64, Vec<W>),
    Loop(i64, Vec<W>),
    If(i64, Vec<W>, Vec<W>),
    /// opcode, immediates
    Op(u8, Vec<i64>),
}
#[derive(Clone, Debug)]
pub struct Func { pub n_params: usize, pub body: Vec<W> }
#[derive(Clone, Debug, Default)]
pub struct Module {
    /// imported functions, in index order: "module.name"
    pub imported_funcs: Vec<String>,
    /// imported globals, in index order
    pub imported_globals: Vec<String>,
    /// defined functions, in index order (function index = imported_funcs.len() + position)
    pub funcs: Vec<Func>,
    /// (parameters, results) of every type
    pub types: Vec<(usize, usize)>,
}

struct R<'a> { b: &'a [u8], p: usize }
impl<'a> R<'a> {
    fn byte(&mut self) -> Result<u8, String> { let v = *self.b.get(self.p).ok_or("unexpected end")?; self.p += 1; Ok(v) }
    fn u(&mut self) -> Result<u64, String> {
        let mut r = 0u64; let mut s = 0;
        loop { let b = self.byte()?; r |= ((b & 0x7f) as u64) << s; if b & 0x80 == 0 { return Ok(r); } s += 7; if s > 63 { return Err("leb too long".into()); } }
    }
    fn s(&mut self) -> Result<i64, String> {
        let mut r = 0i64; let mut s = 0;
        loop {
            let b = self.byte()?; r |= ((b & 0x7f) as i64) << s; s += 7;
            if b & 0x80 == 0 { if s < 64 && (b & 0x40) != 0 { r |= -1i64 << s; } return Ok(r); }
            if s > 70 { return Err("leb too long".into()); }
        }
    }
    fn name(&mut self) -> Result<String, String> { let n = self.u()? as usize; let s = self.b.get(self.p..self.p + n).ok_or("name")?; self.p += n; Ok(String::from_utf8_lossy(s).to_string()) }
    fn done(&self) -> bool { self.p >= self.b.len() }
}

fn block_type(r: &mut R) -> Result<i64, String> {
    let b = *r.b.get(r.p).ok_or("block type")?;
    if b == 0x40 { r.p += 1; Ok(-1) } else if b >= 0x7c && b <= 0x7f { r.p += 1; Ok(b as i64) } else { r.s() }
}
/// reads instructions up to (and consuming) the `end` / `else` that closes the sequence;
/// returns the terminator (0x0b or 0x05)
fn seq(r: &mut R, out: &mut Vec<W>) -> Result<u8, String> {
    loop {
        let op = r.byte()?;
        match op {
            0x0b | 0x05 => return Ok(op),
            0x02 | 0x03 => { let bt = block_type(r)?; let mut body = vec![]; if seq(r, &mut body)? != 0x0b { return Err("else in block".into()); } out.push(if op == 0x02 { W::Block(bt, body) } else { W::Loop(bt, body) }); }
            0x04 => {
                let bt = block_type(r)?; let mut t = vec![]; let mut e = vec![];
                if seq(r, &mut t)? == 0x05 { if seq(r, &mut e)? != 0x0b { return Err("else twice".into()); } }
                out.push(W::If(bt, t, e));
            }
            0x00 | 0x01 | 0x0f | 0x1a | 0x1b => out.push(W::Op(op, vec![])),
            0x0c | 0x0d | 0x10 | 0x20..=0x24 => { let i = r.u()? as i64; out.push(W::Op(op, vec![i])) }
            0x0e => { let n = r.u()?; let mut v = vec![]; for _ in 0..=n { v.push(r.u()? as i64); } out.push(W::Op(op, v)) }
            0x11 => { let t = r.u()? as i64; let tb = r.u()? as i64; out.push(W::Op(op, vec![t, tb])) }
            0x28..=0x3e => { let align = r.u()? as i64; let off = r.u()? as i64; out.push(W::Op(op, vec![align, off])) }
            0x3f | 0x40 => { let m = r.u()? as i64; out.push(W::Op(op, vec![m])) }
            0x41 | 0x42 => { let v = r.s()?; out.push(W::Op(op, vec![v])) }
            0x43 => { let mut v = 0i64; for k in 0..4 { v |= (r.byte()? as i64) << (8 * k); } out.push(W::Op(op, vec![v])) }
            0x44 => { let mut v = 0u64; for k in 0..8 { v |= (r.byte()? as u64) << (8 * k); } out.push(W::Op(op, vec![v as i64])) }
            0x45..=0xc4 => out.push(W::Op(op, vec![])),
            0xfc => {
                let sub = r.u()? as i64;
                match sub {
                    0..=7 => out.push(W::Op(op, vec![sub])),                       // iNN.trunc_sat_fMM_s/u
                    10 => { let a = r.u()? as i64; let b = r.u()? as i64; out.push(W::Op(op, vec![sub, a, b])) }   // memory.copy
                    11 => { let a = r.u()? as i64; out.push(W::Op(op, vec![sub, a])) }                          // memory.fill
                    _ => return Err(format!("opcode 0xfc {} at {} is not known to this reader", sub, r.p - 1)),
                }
            }
            _ => return Err(format!("opcode 0x{:02x} at {} is not known to this reader", op, r.p - 1)),
        }
    }
}

pub fn read(bytes: &[u8]) -> Result<Module, String> {
    if bytes.len() < 8 || &bytes[0..4] != b"\0asm" { return Err("not a wasm binary".into()); }
    let mut r = R { b: bytes, p: 8 };
    let mut m = Module::default();
    let mut func_types: Vec<usize> = vec![];
    while !r.done() {
        let id = r.byte()?; let size = r.u()? as usize;
        let end = r.p + size;
        let mut s = R { b: &bytes[..end], p: r.p };
        match id {
            1 => { let n = s.u()?; for _ in 0..n { if s.byte()? != 0x60 { return Err("type form".into()); } let np = s.u()? as usize; for _ in 0..np { s.byte()?; } let nr = s.u()? as usize; for _ in 0..nr { s.byte()?; } m.types.push((np, nr)); } }
            2 => {
                let n = s.u()?;
                for _ in 0..n {
                    let module = s.name()?; let name = s.name()?;
                    match s.byte()? {
                        0 => { s.u()?; m.imported_funcs.push(format!("{}.{}", module, name)); }
                        1 => { s.byte()?; let f = s.u()?; s.u()?; if f & 1 != 0 { s.u()?; } }
                        2 => { let f = s.u()?; s.u()?; if f & 1 != 0 { s.u()?; } }
                        3 => { s.byte()?; s.byte()?; m.imported_globals.push(format!("{}.{}", module, name)); }
                        k => return Err(format!("import kind {}", k)),
                    }
                }
            }
            3 => { let n = s.u()?; for _ in 0..n { func_types.push(s.u()? as usize); } }
            10 => {
                let n = s.u()? as usize;
                for k in 0..n {
                    let sz = s.u()? as usize; let fend = s.p + sz;
                    let mut f = R { b: &bytes[..fend], p: s.p };
                    let groups = f.u()?; for _ in 0..groups { f.u()?; f.byte()?; }
                    let mut body = vec![];
                    if seq(&mut f, &mut body)? != 0x0b { return Err("function ends with else".into()); }
                    if f.p != fend { return Err("function body size".into()); }
                    let n_params = func_types.get(k).and_then(|t| m.types.get(*t)).map(|t| t.0).unwrap_or(0);
                    m.funcs.push(Func { n_params, body });
                    s.p = fend;
                }
            }
            _ => {}
        }
        r.p = end;
    }
    Ok(m)
}

pub fn show(ws: &[W], indent: usize, out: &mut String) {
    for w in ws {
        let pad = "  ".repeat(indent);
        match w {
            W::Block(bt, b) => { out.push_str(&format!("{}block {}\n", pad, bt)); show(b, indent + 1, out); out.push_str(&format!("{}end\n", pad)); }
            W::Loop(bt, b) => { out.push_str(&format!("{}loop {}\n", pad, bt)); show(b, indent + 1, out); out.push_str(&format!("{}end\n", pad)); }
            W::If(bt, t, e) => { out.push_str(&format!("{}if {}\n", pad, bt)); show(t, indent + 1, out); if !e.is_empty() { out.push_str(&format!("{}else\n", pad)); show(e, indent + 1, out); } out.push_str(&format!("{}end\n", pad)); }
            W::Op(op, imm) => out.push_str(&format!("{}0x{:02x} {:?}\n", pad, op, imm)),
        }
    }
}
