#!/usr/bin/env python3
"""Apply a fix patch from /verif/fixes to /repo, leaving out hunks that only add
tests (the pinned test suite stays unedited), and commit it with its .msg file.
usage: apply_fix.py <name-without-extension> [--dry]"""
import re, subprocess, sys
name = sys.argv[1]; dry = "--dry" in sys.argv
d = open(f"/verif/fixes/{name}.patch").read()
files = re.split(r"(?m)^(?=diff --git )", d)
out = []
dropped = 0
for f in files:
    if not f.strip(): continue
    m = re.match(r"diff --git a/(\S+) ", f)
    path = m.group(1)
    parts = re.split(r"(?m)^(?=@@ )", f)
    header, hunks = parts[0], parts[1:]
    if path.endswith("/tests.rs") or "/tests/" in path or "/testdata/" in path:
        dropped += len(hunks); continue
    keep = []
    for h in hunks:
        added = [l for l in h.split("\n") if l.startswith("+")]
        if any(re.match(r"\+\s*#\[test\]", l) for l in added):
            dropped += 1; continue
        keep.append(h)
    if keep: out.append(header + "".join(keep))
patch = "".join(out)
print(f"{name}: kept {sum(p.count(chr(10)+'@@ ')+p.startswith('@@') for p in out)} hunks, dropped {dropped} test hunks")
r = subprocess.run(["git", "-C", "/repo", "apply", "--recount", "--check", "-"], input=patch, text=True, capture_output=True)
if r.returncode != 0:
    print("DOES NOT APPLY:", r.stderr[:500]); sys.exit(1)
if dry: sys.exit(0)
subprocess.run(["git", "-C", "/repo", "apply", "--recount", "--index", "-"], input=patch, text=True, check=True)
msg = open(f"/verif/fixes/{name}.msg").read()
assert msg.startswith("fix: ")
subprocess.run(["git", "-C", "/repo", "commit", "-q", "-F", "-"], input=msg, text=True, check=True)
print(subprocess.check_output(["git", "-C", "/repo", "log", "--oneline", "-1"], text=True))
