#!/usr/bin/env python3
"""Stage only the hunks of a file in /repo whose text matches a regex (other,
uncommitted hook edits stay in the working tree). usage: commit_hunks.py <file> <regex> [<file> <regex> ...]"""
import re, subprocess, sys
args = sys.argv[1:]
for i in range(0, len(args), 2):
    f, rx = args[i], args[i + 1]
    d = subprocess.check_output(["git", "-C", "/repo", "diff", "-U3", "--", f], text=True)
    parts = re.split(r"(?m)^(?=@@ )", d)
    header, hunks = parts[0], parts[1:]
    mine = [h for h in hunks if re.search(rx, h)]
    if not mine:
        sys.exit(f"no hunk of {f} matches {rx}")
    patch = header + "".join(mine)
    subprocess.run(["git", "-C", "/repo", "apply", "--cached", "--recount", "-"], input=patch, text=True, check=True)
    print(f"staged {len(mine)}/{len(hunks)} hunks of {f}")
