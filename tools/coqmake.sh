#!/bin/bash
# build targets in /verif/coq under the shared lock (regenerates _CoqProject/Makefile first)
cd /verif && python3 - "$@" <<'PY'
import sys, check
rc, out = check.coq_make(sys.argv[1:] or None, timeout=1500)
print(out[-4000:])
sys.exit(rc)
PY
