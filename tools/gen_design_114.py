#!/usr/bin/env python3
"""Regenerate the generated parts of DESIGN.md section 11.4 (translator list, hook list,
per-property assumptions) from translate/gen_*.py, /repo and checks/Cxx.py.
The text between the markers is replaced; everything else is left alone."""
import ast, glob, importlib, os, re, subprocess, sys
sys.path.insert(0, "/verif")
D = "/verif/DESIGN.md"

def first_doc(path):
    try:
        doc = ast.get_docstring(ast.parse(open(path).read())) or ""
    except SyntaxError:
        doc = ""
    para = doc.strip().split("\n\n")[0]
    return " ".join(para.split())[:400]

def translators():
    out = []
    for p in sorted(glob.glob("/verif/translate/gen_*.py")):
        out.append(f"  - `{os.path.basename(p)}`: {first_doc(p)}")
    return "\n".join(out)

def hooks():
    r = subprocess.run(["git", "-C", "/repo", "grep", "-l", "cfg(yara_x_verif)"], capture_output=True, text=True).stdout.split()
    files = subprocess.run(["git", "-C", "/repo", "ls-files"], capture_output=True, text=True).stdout.split()
    r = sorted(set(r) | {f for f in files if re.search(r"(^|/)verif[_a-z0-9]*\.rs$", f)})
    whole = []
    for f in sorted(r):
        base = os.path.basename(f)
        kind = "new file" if base.startswith("verif") else "guarded lines"
        whole.append(f"`{f}` ({kind})")
    commits = [l.strip() for l in open("/verif/tools/hook_commits.txt") if l.strip()]
    return ("  " + "; ".join(whole) + ".\n  Commits: " + ", ".join(commits) + ".")

def assumptions():
    out = []
    for i in range(1, 21):
        pid = f"C{i:02d}"
        try:
            m = importlib.import_module(f"checks.{pid}")
        except Exception as e:
            out.append(f"* **{pid}**: (module not importable: {e})"); continue
        a = m.SPEC.get("assumptions", [])
        tb = m.SPEC.get("trusted_base", [])
        out.append(f"* **{pid}**: " + " | ".join(a) + ("  \n  *Tied to the source by*: " + " | ".join(tb) if tb else ""))
    return "\n".join(out)

def put(s, name, body):
    b, e = f"<!-- BEGIN GENERATED {name} -->", f"<!-- END GENERATED {name} -->"
    if b not in s:
        raise SystemExit(f"marker {name} missing in DESIGN.md")
    i, j = s.index(b) + len(b), s.index(e)
    return s[:i] + "\n" + body + "\n" + s[j:]

def inventory():
    out = ["| property | theorems in Props/Cxx.v (closed with `exact`/`vm_compute`, `Print Assumptions` read every run) | translators | proof and model targets |", "|---|---|---|---|"]
    for i in range(1, 21):
        pid = f"C{i:02d}"
        try:
            m = importlib.import_module(f"checks.{pid}")
        except Exception as e:
            continue
        src = open(f"/verif/coq/Props/{pid}.v").read()
        names = re.findall(r"^\s*(?:Theorem|Lemma)\s+([A-Za-z0-9_']+)", src, re.M)
        sp = m.SPEC
        tg = [t.replace(".vo", "") for t in sp.get("proof_targets", []) + sp.get("model_targets", [])]
        out.append(f"| {pid} | {len(names)}: " + ", ".join(f"`{n}`" for n in names) + " | " + ", ".join(sp.get("translators", [])) + " | " + ", ".join(tg) + " |")
    return "\n".join(out)

s = open(D).read()
s = put(s, "inventory", inventory())
s = put(s, "translators", translators())
s = put(s, "hooks", hooks())
s = put(s, "assumptions", assumptions())
open(D, "w").write(s)
print("DESIGN.md 11.4 regenerated")
