#!/bin/bash
# usage: goal.sh <file.v relative to coq/> <line>  -- show the goals after line N
cd /verif/coq
f="$1"; n="$2"
d=$(dirname "$f")
tmp="$d/TmpGoal$$.v"
head -n "$n" "$f" > "$tmp"
echo "Show. Abort All." >> "$tmp"
timeout 120 coqc -Q . YV -w -notation-overridden,-deprecated-hint-without-locality "$tmp" 2>&1 | head -${3:-60}
rm -f "$d/TmpGoal$$".* "$d/.TmpGoal$$".*
