#!/usr/bin/env python3
"""Regenerate MANIFEST.json from checks/*.py (claimed) and properties.jsonl."""
import json, os, sys, importlib, glob
ROOT = os.path.dirname(os.path.dirname(os.path.abspath(__file__)))
sys.path.insert(0, ROOT)
props = [json.loads(l) for l in open(os.path.join(ROOT, "properties.jsonl"))]
pending_reason = json.load(open(os.path.join(ROOT, "tools", "not_claimed.json")))
# only properties the coordinator has verified end-to-end are claimed
claimed_list = [l.strip() for l in open(os.path.join(ROOT, "tools", "claimed.txt")) if l.strip() and not l.startswith("#")]
checks, na = [], []
for p in props:
    pid = p["id"]
    mp = os.path.join(ROOT, "checks", pid + ".py")
    mod = importlib.import_module("checks." + pid) if os.path.exists(mp) else None
    if mod is not None and hasattr(mod, "MANIFEST") and pid in claimed_list:
        m = mod.MANIFEST
        checks.append({
            "property_id": pid,
            "quick_cmd": f"python3 check.py run {pid} --tier quick",
            "thorough_cmd": f"python3 check.py run {pid} --tier thorough",
            "evidence_file": f"/verif/evidence/{pid}.json",
            "replay_cmd_template": "python3 check.py replay {path}",
            "engine": "coq-model+harness",
            "level_claimed": {"category": "proof", "text": m["level_text"], "design_ref": m.get("design_ref", "DESIGN.md section 4")},
            "level_note": m["level_note"],
            "technique": m["technique"],
        })
    else:
        na.append({"property_id": pid, "reason": pending_reason.get(pid, "check not built yet (work in progress); see DESIGN.md section 4 for the plan")})
hooks_commits = []
hc = os.path.join(ROOT, "tools", "hook_commits.txt")
if os.path.exists(hc):
    hooks_commits = [l.strip() for l in open(hc) if l.strip()]
man = {
    "version": 1,
    "setup_cmd": "python3 check.py setup",
    "hooks": {
        "guard": "yara_x_verif",
        "enable": "RUSTFLAGS=\"--cfg yara_x_verif\" (set by check.py when it builds /verif/harness against /repo)",
        "baseline_off_cmd": "cd /repo && cargo nextest run --workspace --no-fail-fast --test-threads 8 --offline || (cd /repo && cargo test --workspace --no-fail-fast --offline)",
        "source_commits": hooks_commits,
        "add_only": True,
    },
    "engines": [
        {"name": "coq-model+harness", "path": "/verif/check.py",
         "serves_properties": [c["property_id"] for c in checks],
         "kind_free_text": "Coq 8.16 models and theorems (coq/), translators regenerating coq/Gen from the Rust source (translate/), Rust harness linked against /repo (harness/) writing cases evaluated by coqc with vm_compute"}],
    "checks": checks,
    "not_applicable": na,
    "notes": "Every check regenerates coq/Gen/*.v from /repo, rebuilds the Coq project and the harness incrementally, then compares model and implementation. See DESIGN.md.",
}
json.dump(man, open(os.path.join(ROOT, "MANIFEST.json"), "w"), indent=1)
print("claimed:", [c["property_id"] for c in checks])
