#!/bin/bash
# Run checks against a MUTATED copy of the repository without touching /repo
# (other work may be using /repo concurrently).
#
#   tools/mutsandbox.sh prepare            create/refresh /tmp/mutrepo (worktree of /repo HEAD + uncommitted
#                                          hook edits) and /tmp/verif-mut (copy of /verif, harness pointing at it)
#   tools/mutsandbox.sh run <patch.diff> <Cxx> [tier]   apply patch, run the check, un-apply
#   tools/mutsandbox.sh locked-run <patch.diff> <Cxx> [tier]   prepare + run under an exclusive lock:
#                                          the form to use when several people share the sandbox
#   tools/mutsandbox.sh clean              remove both
set -u
MR=/tmp/mutrepo
MV=/tmp/verif-mut
case "${1:-}" in
prepare)
  if [ ! -d "$MR" ]; then git -C /repo worktree add -q --detach "$MR" HEAD || exit 1; fi
  git -C "$MR" checkout -q -- . ; git -C "$MR" clean -qfd -e target
  git -C "$MR" checkout -q --detach "$(git -C /repo rev-parse HEAD)" || exit 1
  # uncommitted hook edits of /repo (tracked + untracked, add-only, cfg-guarded)
  git -C /repo diff | git -C "$MR" apply --whitespace=nowarn - 2>/dev/null
  (cd /repo && git ls-files --others --exclude-standard | grep -v '^target/' | while read -r f; do mkdir -p "$MR/$(dirname "$f")"; cp "$f" "$MR/$f"; done)
  mkdir -p "$MV"
  rsync -a --delete --exclude .git --exclude '.cache/target*' --exclude '.cache/cases' --exclude replays --exclude evidence /verif/ "$MV"/
  mkdir -p "$MV/replays" "$MV/evidence" "$MV/.cache"
  sed -i "s#/repo/#$MR/#g" "$MV/harness/Cargo.toml"
  sed -i "s#/verif/.cache/target#$MV/.cache/target#" "$MV/harness/.cargo/config.toml"
  if [ ! -d "$MV/.cache/target" ]; then echo "seeding target dir (copy)"; cp -a /verif/.cache/target "$MV/.cache/target"; fi
  echo prepared
  ;;
run)
  patch="$2"; pid="$3"; tier="${4:-quick}"
  git -C "$MR" apply --whitespace=nowarn "$patch" || { echo "patch does not apply"; exit 3; }
  (cd "$MV" && VERIF_REPO="$MR" timeout 3000 python3 check.py run "$pid" --tier "$tier")
  rc=$?
  git -C "$MR" apply -R --whitespace=nowarn "$patch"
  echo "exit=$rc"
  exit $rc
  ;;
locked-run)
  shift
  exec flock /tmp/mutsandbox.lock bash -c '"$0" prepare >/dev/null && "$0" run "$@"' "$0" "$@"
  ;;
clean)
  rm -rf "$MV"
  git -C /repo worktree remove --force "$MR" 2>/dev/null
  rm -rf "$MR"
  ;;
*) echo "usage: $0 prepare|run <patch> <Cxx> [tier]|locked-run <patch> <Cxx> [tier]|clean"; exit 2;;
esac
