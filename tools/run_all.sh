#!/bin/bash
# Run every claimed check (quick tier by default) sequentially in /verif against /repo,
# print one line per check, validate evidence files. usage: tools/run_all.sh [quick|thorough]
cd /verif
tier="${1:-quick}"
fail=0
for p in $(grep -v '^#' tools/claimed.txt); do
  t0=$(date +%s)
  out=$(python3 check.py run "$p" --tier "$tier" 2>&1); rc=$?
  t1=$(date +%s)
  line=$(echo "$out" | grep -E "^\[$p\]" | tail -1)
  nk=$(echo "$out" | grep -c "^KNOWN-FINDING")
  nv=$(echo "$out" | grep -c "^VIOLATION")
  echo "$p rc=$rc known=$nk violations=$nv $((t1-t0))s :: $line"
  [ $rc -ne 0 ] && { fail=1; echo "$out" | grep -E "^VIOLATION" | head -3; }
done
python3-vt - <<'PY'
import json, jsonschema, glob
sch = json.load(open('/root/.vp/EVIDENCE.schema.json'))
bad = 0
for p in sorted(glob.glob('/verif/evidence/*.json')):
    try: jsonschema.validate(json.load(open(p)), sch)
    except Exception as e: bad += 1; print('INVALID', p, str(e)[:200])
jsonschema.validate(json.load(open('/verif/MANIFEST.json')), json.load(open('/root/.vp/MANIFEST.schema.json')))
print('evidence files valid' if not bad else f'{bad} invalid evidence files')
PY
exit $fail
