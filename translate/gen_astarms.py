#!/usr/bin/env python3
"""Gen/AstBuilderArms.v (C09) from parser/src/ast/cst2ast.rs and lib/src/compiler/mod.rs.

* build_ast: for each top-level node kind (RULE_DECL / IMPORT_STMT / INCLUDE_STMT) and each
  result of the node's builder function (Ok / Err(Abort) / Err(MaxDepthReached)): does the arm
  push the item, call recover(), or do nothing;
* MAX_AST_DEPTH; whether recover() forwards the parser's Error events to `errors`;
* c_items (compiler): what the `Item::Rule` arm does when c_rule returns Err;
* c_rule: the arms that tolerate an error (return Ok(())): do they push to ignored_rules and
  add a warning.
"""
import re, os
from tlib import *

C2A = "parser/src/ast/cst2ast.rs"
CMP = "lib/src/compiler/mod.rs"


def norm(s):
    return re.sub(r"\s+", " ", strip_comments(s)).strip()


def action(text, what):
    t = text.strip().rstrip(",").strip()
    if re.fullmatch(r"items\.push\(Item::(Rule|Import|Include)\([a-z_]+\)\)", t): return "APush"
    if t == "self.recover()": return "ARecover"
    if t == "{}": return "ANothing"
    raise TranslateError(f"build_ast: arm action not understood ({what}): {t[:80]!r}")


def main():
    c2a = src(C2A)
    body = norm(fn_body(c2a, "build_ast"))
    arms = {}
    for kind, coq in (("RULE_DECL", "KRule"), ("IMPORT_STMT", "KImport"), ("INCLUDE_STMT", "KInclude")):
        m = re.search(r"Event::Begin \{ kind: " + kind + r", \.\. \} => (\{ )?match self\.([a-z_]+)\(\) \{", body)
        if not m:
            raise TranslateError(f"build_ast: arm for {kind} not found")
        i = body.index("{", m.end() - 1)
        j = match_brace(body, i)
        inner = body[i + 1:j]
        res = {}
        for pat, name in ((r"Ok\([a-z_]+\) =>", "BOk"), (r"Err\(BuilderError::Abort\) =>", "BAbort"),
                          (r"Err\(BuilderError::MaxDepthReached\) =>", "BMaxDepth")):
            am = re.search(pat + r"\s*(.*?)(?=(?:Ok\([a-z_]+\) =>|Err\(BuilderError::[A-Za-z]+\) =>|$))", inner)
            if not am:
                raise TranslateError(f"build_ast: {kind}: no arm for {name}")
            res[name] = action(am.group(1), f"{kind}/{name}")
        n_arms = len(re.findall(r"=>", inner))
        if n_arms != 3:
            raise TranslateError(f"build_ast: {kind}: expected 3 arms, found {n_arms}")
        arms[coq] = res
    # the set of BuilderError variants must be exactly the two we model
    em = re.search(r"enum\s+BuilderError\s*\{(.*?)\}", strip_comments(c2a), re.S)
    if not em or sorted(re.findall(r"\b([A-Z][A-Za-z]+)\b", em.group(1))) != ["Abort", "MaxDepthReached"]:
        raise TranslateError("enum BuilderError: variants changed")
    dm = re.search(r"const\s+MAX_AST_DEPTH\s*:\s*usize\s*=\s*([0-9_]+)\s*;", c2a)
    if not dm: raise TranslateError("MAX_AST_DEPTH not found")
    depth = int(dm.group(1).replace("_", ""))
    rec = norm(fn_body(c2a, "recover"))
    fwd = bool(re.search(r"if let Some\(Event::Error \{ message, span \}\) = self\.events\.next\(\) \{ self\.errors\.push\(Error::SyntaxError \{ message, span \}\); \}", rec))
    # does anything push an error when MaxDepthReached is produced?
    beg = norm(fn_body(c2a, "begin"))
    mm = re.search(r"if self\.depth == Self::MAX_AST_DEPTH \{", beg)
    if not mm: raise TranslateError("Builder::begin: MAX_AST_DEPTH test not found")
    blk_ = beg[mm.end():match_brace(beg, mm.end() - 1)]
    if "BuilderError::MaxDepthReached" not in blk_:
        raise TranslateError("Builder::begin: the MAX_AST_DEPTH block does not return MaxDepthReached")
    # an error must be pushed BEFORE the return
    maxdepth_pushes_error = "self.errors.push(" in blk_[:blk_.index("BuilderError::MaxDepthReached")]

    cmp_ = src(CMP)
    items = norm(fn_body(cmp_, "c_items"))
    rm = re.search(r"ast::Item::Rule\(rule\) => \{ if let Err\(err\) = self\.c_rule\(rule\) \{(.*?)\} \}", items)
    if not rm: raise TranslateError("c_items: `ast::Item::Rule(rule) => { if let Err(err) = self.c_rule(rule) {..} }` not found")
    err_ign = bool(re.search(r"self\.ignored_rules\.push\(", rm.group(1)))
    err_err = bool(re.search(r"self\.errors\.push\(err\)", rm.group(1)))
    crule = norm(fn_body(cmp_, "c_rule"))
    tm = re.search(r"return match err \{", crule)
    if not tm: raise TranslateError("c_rule: `return match err {` not found")
    i = crule.index("{", tm.end() - 1); j = match_brace(crule, i)
    blk = crule[i + 1:j]
    tolerated = []
    # split the match into top-level arms
    depth_, start, armtxt = 0, 0, []
    k = 0
    while k < len(blk):
        c = blk[k]
        if c in "({[": depth_ += 1
        elif c in ")}]":
            depth_ -= 1
            if depth_ == 0 and c == "}":
                armtxt.append(blk[start:k + 1]); start = k + 1
                while start < len(blk) and blk[start] in ", ": start += 1
                k = start - 1
        k += 1
    if blk[start:].strip(): armtxt.append(blk[start:])
    for a in armtxt:
        for om in re.finditer(r"Ok\(\(\)\)", a):
            pre = a[:om.start()]
            # the statements of the block that ends in this Ok(())
            tolerated.append((("self.ignored_rules.push(" in pre), ("self.warnings.add(" in pre)))
    if not tolerated:
        raise TranslateError("c_rule: no tolerated-error arm found")
    # the final success path pushes the rule
    if not re.search(r"self\.rules\.push\(", crule):
        raise TranslateError("c_rule: self.rules.push( not found")

    # ---- every place where cst2ast.rs produces BuilderError::Abort, classified
    code = strip_comments(c2a)
    # blank string literals (they contain braces)
    # blank char literals first ('"', '\\', b'"'), then string literals
    code_c = re.sub(r"b?'(?:\\.|[^'\\])'", lambda m: " " * len(m.group(0)), code)
    code_b = re.sub(r'"(?:[^"\\]|\\.)*"', lambda m: '"' + " " * (len(m.group(0)) - 2) + '"', code_c)
    sites = []
    for m in re.finditer(r"BuilderError::Abort\b", code_b):
        before = code_b[:m.start()]
        after = code_b[m.end():m.end() + 12]
        if re.match(r"\s*,?\s*$", code_b[m.end():code_b.find("\n", m.end())]) and re.search(r"enum\s+BuilderError\s*\{[^}]*$", before):
            continue                                   # the enum declaration
        if re.match(r"\)\s*=>", after):
            continue                                   # a match arm `Err(BuilderError::Abort) =>`
        fn = re.findall(r"\bfn\s+([a-z_0-9]+)\s*[<(]", before)
        fn = fn[-1] if fn else "?"
        # innermost enclosing block: scan backwards for the unmatched `{`
        depth, i = 0, m.start() - 1
        while i >= 0:
            ch = code_b[i]
            if ch == "}": depth += 1
            elif ch == "{":
                if depth == 0: break
                depth -= 1
            i -= 1
        if i < 0: raise TranslateError(f"cst2ast.rs: no enclosing block for an Abort in fn {fn}")
        blk = code_b[i + 1:m.start()]
        # statements of that block itself (nested blocks removed)
        flat, d = [], 0
        for ch in blk:
            if ch == "{": d += 1
            elif ch == "}": d -= 1
            elif d == 0: flat.append(ch)
        flat = "".join(flat)
        j = max(code_b.rfind(";", 0, i), code_b.rfind("}", 0, i), code_b.rfind("{", 0, i))
        header = code_b[j + 1:i + 1]
        # the pattern of an `if let PATTERN = ..` has braces of its own: look a little further back
        header2 = code_b[max(0, i - 120):i + 1]
        if re.search(r"self\s*\.\s*errors\s*\.\s*push\s*\(", flat):
            cls = "APushedError"
        elif re.search(r"Event::Begin\s*\{\s*kind:\s*ERROR", header + header2):
            cls = "AErrorNode"
        else:
            cls = "AShapeMismatch"
        sites.append((fn, cls))
    if len(sites) < 5:
        raise TranslateError("cst2ast.rs: fewer BuilderError::Abort sites than expected; classification lost")

    # ---- the shape both sides rely on: the productions of the grammar and, per builder function, the
    # sequence of begin/end/expect/peek-pattern/builder calls
    import hashlib, gen_grammar
    gen_grammar.main()
    gtxt = open(os.path.join(GEN, "Grammar.v"), encoding="utf-8").read()
    gm = re.search(r"Definition grammar \(n : nonterminal\) : prog nonterminal :=(.*?)\n  end\.", gtxt, re.S)
    if not gm: raise TranslateError("Gen/Grammar.v: grammar definition not found")
    productions = re.sub(r"\s+", " ", gm.group(1)).strip()
    impl = code_b[code_b.index("const MAX_AST_DEPTH"):]
    skel = []
    fpos = [(m.start(), m.group(1)) for m in re.finditer(r"\bfn\s+([a-z_0-9]+)\s*[<(]", impl)]
    for k, (st, name) in enumerate(fpos):
        body = impl[st:fpos[k + 1][0] if k + 1 < len(fpos) else len(impl)]
        items = re.findall(r"self\.(begin|end|expect)\(\s*([A-Z_0-9]+)\s*\)|Event::(Token|Begin|End)\s*\{\s*kind:\s*([A-Z_0-9|\s]+?)\s*[,}]|self\.([a-z_0-9]+)\(", body)
        seq = []
        for a, b_, c, d_, e in items:
            if a: seq.append(f"{a}:{b_}")
            elif c: seq.append(f"peek{c}:{re.sub(chr(92) + 's+', '', d_)}")
            elif e not in ("begin", "end", "expect", "peek", "next", "recover", "get_source", "get_source_str", "consume_errors_and_trivia"): seq.append(f"call:{e}")
        skel.append(name + "=" + ",".join(seq))
    if len(skel) < 30: raise TranslateError("cst2ast.rs: builder functions not found")
    shape_text = productions + "\n" + "\n".join(skel)
    digest = int(hashlib.sha256(shape_text.encode()).hexdigest()[:15], 16)

    b = lambda x: "true" if x else "false"
    L = ["(* GENERATED by translate/gen_astarms.py from parser/src/ast/cst2ast.rs and\n   lib/src/compiler/mod.rs -- do not edit; regenerated on every check. *)",
         "From Coq Require Import List NArith Bool.\nImport ListNotations.\n",
         "Inductive item_kind := KRule | KImport | KInclude.",
         "Inductive bres := BOk | BAbort | BMaxDepth.          (* Ok / Err(BuilderError::Abort) / Err(BuilderError::MaxDepthReached) *)",
         "Inductive arm := APush | ARecover | ANothing.\n",
         "(* Builder::build_ast: what the arm for node kind k does with result r *)",
         "Definition build_ast_arm (k : item_kind) (r : bres) : arm :=\n  match k, r with"]
    for k in ("KRule", "KImport", "KInclude"):
        for r in ("BOk", "BAbort", "BMaxDepth"):
            L.append(f"  | {k}, {r} => {arms[k][r]}")
    L.append("  end.\n")
    L.append(f"Definition max_ast_depth : N := {depth}%N.")
    L.append(f"(* Builder::recover forwards every Event::Error it skips to `errors` *)\nDefinition recover_forwards_errors : bool := {b(fwd)}.")
    L.append(f"(* Builder::begin pushes an error before returning MaxDepthReached *)\nDefinition maxdepth_pushes_error : bool := {b(maxdepth_pushes_error)}.\n")
    L.append(f"(* Compiler::c_items, `Item::Rule` arm, when c_rule returns Err *)\nDefinition c_items_err_pushes_ignored : bool := {b(err_ign)}.\nDefinition c_items_err_pushes_error : bool := {b(err_err)}.")
    L.append("(* Compiler::c_rule: arms that tolerate an error and return Ok(()): (pushes ignored_rules, adds a warning) *)")
    L.append("Definition c_rule_tolerated_arms : list (bool * bool) := [" + "; ".join(f"({b(x)}, {b(y)})" for x, y in tolerated) + "].")
    L.append("\n(* every place where cst2ast.rs produces BuilderError::Abort: below an ERROR node of the CST, after\n   pushing an error, or because the CST does not have the shape the builder expects *)")
    L.append("Inductive abort_class := AErrorNode | APushedError | AShapeMismatch.")
    L.append("Definition abort_sites : list abort_class :=\n  [" + ";\n   ".join(f"{c} (* fn {f} *)" for f, c in sites) + "].")
    L.append("\n(* digest of (grammar productions of Gen/Grammar.v, per builder function of cst2ast.rs the sequence of\n   begin/end/expect/peek patterns/calls): the two sides of the CST-shape agreement *)")
    L.append(f"Definition cst_shape_digest : N := {digest}%N.")
    write_if_changed("AstBuilderArms.v", "\n".join(L) + "\n")
    with open(os.path.join(GEN, "CstShape.txt"), "w", encoding="utf-8") as f:
        f.write(shape_text + "\n")


if __name__ == "__main__":
    main()
