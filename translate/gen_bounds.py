#!/usr/bin/env python3
"""Gen/BoundsGen.v from lib/src/compiler/rules.rs (FilesizeBounds) and
lib/src/compiler/ir/mod.rs (filesize_bounds, header_constraints).

Extracted:
* FilesizeBounds::max_start / min_end: for each (current, new) combination of
  Included/Excluded the comparison under which the new bound replaces the
  current one;
* IR::filesize_bounds: for each comparison operator and operand order which
  helper is called (upper/lower_bound_from_const), with which `inclusive`
  flag, and which merge (min_end/max_start) receives the result;
* the integer arms of lower/upper_bound_from_const (shape check) and the
  float arms (floor / ceil rule, shape check);
* IR::apply_int_read_constraint: function names and, per add_constraint call,
  (offset addend, width of the truncating cast, right shift) of the byte;
* the pattern flags that exclude a pattern from `$p at 0` header constraints;
* the pruning sites of ScanContext::search_for_patterns (shape check).
"""
import re
from tlib import *

CMP = {">": "Z.gtb", ">=": "Z.geb", "<": "Z.ltb", "<=": "Z.leb"}


def merge_table(impl, fn, field):
    body = strip_comments(fn_body(impl, fn, f"FilesizeBounds::{fn}"))
    flat = re.sub(r"\s+", " ", body)
    res = {}
    for cur in ("Included", "Excluded"):
        for new in ("Included", "Excluded"):
            m = re.search(r"\(Bound::" + cur + r"\(current\), Bound::" + new + r"\(new\)\) => \{ if new (>=|<=|>|<) current \{ self\." + field +
                          r" = Bound::" + new + r"\(\*new\);? \} \}", flat)
            if not m:
                raise TranslateError(f"FilesizeBounds::{fn}: arm ({cur}(current), {new}(new)) has an unexpected shape")
            res[(cur, new)] = m.group(1)
    if not re.search(r"\(Bound::Unbounded, new\) => \{ self\." + field + r" = \*new; \}", flat):
        raise TranslateError(f"FilesizeBounds::{fn}: arm (Unbounded, new) not found")
    if not re.search(r"\(_, Bound::Unbounded\) => \{\s*\}", flat):
        raise TranslateError(f"FilesizeBounds::{fn}: arm (_, Unbounded) not found")
    return res


def fs_arms(ir_text):
    body = strip_comments(fn_body(ir_text, "filesize_bounds", "IR::filesize_bounds"))
    res = {}
    for op in ("Gt", "Ge", "Lt", "Le"):
        m = re.search(r"Expr::" + op + r"\s*\{\s*lhs,\s*rhs\s*\}\s*=>\s*\{", body)
        if not m:
            raise TranslateError(f"filesize_bounds: arm Expr::{op} not found")
        j = match_brace(body, m.end() - 1)
        arm = re.sub(r"\s+", " ", body[m.end():j])
        for left, pat in ((True, r"\(Expr::Const\(c\), Expr::Filesize\)"), (False, r"\(Expr::Filesize, Expr::Const\(c\)\)")):
            mm = re.search(pat + r" => \{ if let Some\(bound\) = Self::(upper|lower)_bound_from_const\(\s*c, (true|false)\s*\) \{ result\.(min_end|max_start)\(bound\); \} \}", arm)
            if not mm:
                raise TranslateError(f"filesize_bounds: Expr::{op}, constant on the {'left' if left else 'right'}: unexpected shape")
            which, incl, merge = mm.group(1), mm.group(2) == "true", mm.group(3)
            if (which == "upper") != (merge == "min_end"):
                raise TranslateError(f"filesize_bounds: Expr::{op}: {which}_bound_from_const result passed to {merge}")
            res[(op, left)] = (which == "upper", incl)
    if not re.search(r"if\s*!matches!\(expr,\s*Expr::And\s*\{\s*\.\.\s*\}\)\s*\{\s*dfs\.prune\(\);", body):
        raise TranslateError("filesize_bounds: `if !matches!(expr, Expr::And {..}) { dfs.prune() }` not found")
    return res


def check_const_helpers(ir_text):
    for which, fn in (("lower", "floor"), ("upper", "ceil")):
        body = re.sub(r"\s+", " ", strip_comments(fn_body(ir_text, f"{which}_bound_from_const")))
        if not re.search(r"TypeValue::Integer \{ value: Const\(v\), \.\. \} => \{ if inclusive \{ Some\(Bound::Included\(\*v\)\) \} else \{ Some\(Bound::Excluded\(\*v\)\) \} \}", body):
            raise TranslateError(f"{which}_bound_from_const: integer arm has an unexpected shape")
        if not re.search(r"TypeValue::Float \{ value: Const\(v\), \.\. \} if v\.is_finite\(\) => \{ let " + fn + r" = v\." + fn + r"\(\); if inclusive && " + fn +
                         r" == \*v \{ Some\(Bound::Included\(" + fn + r" as i64\)\) \} else \{ Some\(Bound::Excluded\(" + fn + r" as i64\)\) \} \}", body):
            raise TranslateError(f"{which}_bound_from_const: float arm has an unexpected shape")


def int_read_table(ir_text):
    body = strip_comments(fn_body(ir_text, "apply_int_read_constraint"))
    flat = re.sub(r"\s+", " ", body)
    if not re.search(r"try_as_const_integer\(\)\) && offset >= 0", flat):
        raise TranslateError("apply_int_read_constraint: `offset >= 0` guard not found")
    m = re.search(r"match\s+func_call\.plain_name\(\)\s*\{", body)
    if not m:
        raise TranslateError("apply_int_read_constraint: match on plain_name() not found")
    j = match_brace(body, m.end() - 1)
    arms = body[m.end():j]
    table = []
    pos = 0
    while True:
        am = re.compile(r'((?:"[a-z0-9]+"\s*\|?\s*)+)=>\s*\{').search(arms, pos)
        if not am:
            break
        k = match_brace(arms, am.end() - 1)
        names = re.findall(r'"([a-z0-9]+)"', am.group(1))
        arm = re.sub(r"\s+", " ", arms[am.end():k])
        parts = []
        for cm in re.finditer(r"self\.add_constraint\( constrained_bytes, unsatisfiable, offset as usize(?: \+ (\d+))?, (.*?), \);", arm):
            add = int(cm.group(1) or 0)
            v = cm.group(2).strip()
            mm = re.fullmatch(r"val as u8", v)
            if mm:
                parts.append((add, 8, 0)); continue
            mm = re.fullmatch(r"\(\(?val as u(16|32)(?: >> (\d+)\))? & 0xff\) as u8", v)
            if not mm:
                raise TranslateError(f"apply_int_read_constraint: cannot read byte expression {v!r}")
            parts.append((add, int(mm.group(1)), int(mm.group(2) or 0)))
        if not parts or "return true" not in arm:
            raise TranslateError(f"apply_int_read_constraint: arm {names} has no add_constraint / return true")
        for n in names:
            table.append((n, parts))
        pos = k
    if not table:
        raise TranslateError("apply_int_read_constraint: no arms found")
    return table


def excluded_flags(ir_text):
    body = strip_comments(fn_body(ir_text, "header_constraints"))
    m = re.search(r"let\s+excluded_flags\s*=\s*([^;]*);", body)
    if not m:
        raise TranslateError("header_constraints: excluded_flags not found")
    flags = re.findall(r"PatternFlags::([A-Za-z0-9]+)", m.group(1))
    flat = re.sub(r"\s+", " ", body)
    if not re.search(r"if let MatchAnchor::At\(offset_expr\) = anchor && let Some\(0\) = self\.get\(\*offset_expr\)\.try_as_const_integer\(\)", flat):
        raise TranslateError("header_constraints: `$p at 0` test has an unexpected shape")
    if not re.search(r"if\s*!matches!\(expr,\s*Expr::And\s*\{\s*\.\.\s*\}\)\s*\{\s*dfs\.prune\(\);", body):
        raise TranslateError("header_constraints: descent only through Expr::And not found")
    return flags


def check_pruning_sites():
    ctx = strip_comments(fn_body(src("lib/src/scanner/context.rs"), "search_for_patterns"))
    flat = re.sub(r"\s+", " ", ctx)
    if not re.search(r"if !block_scanning_mode \{ let filesize = self\.get_filesize\(\); for \(pattern_id, bounds\) in self\.compiled_rules\.filesize_bounds\(\) \{ if !bounds\.contains\(filesize\) \{ self\.tracker\.disabled_patterns\.insert\(\*pattern_id\);", flat):
        raise TranslateError("search_for_patterns: filesize pruning has an unexpected shape")
    # since 7f32d09d the test is `(!block_scanning_mode || constraints.is_decidable(data)) && !constraints.is_satisfied(data)`:
    # when the data is scanned as a whole (what Opt/Bounds.v models) this is the former `!constraints.is_satisfied(data)`
    if not re.search(r"if base == 0 \{ for \(pattern_id, constraints\) in self\.compiled_rules\.header_constraints\(\) \{ if (?:\(!block_scanning_mode \|\| constraints\.is_decidable\(data\)\) && )?!constraints\.is_satisfied\(data\) \{ self\.tracker\.disabled_patterns\.insert\(\*pattern_id\);", flat):
        raise TranslateError("search_for_patterns: header pruning has an unexpected shape")
    rules = strip_comments(src("lib/src/compiler/rules.rs"))
    flat = re.sub(r"\s+", " ", fn_body(rules, "is_satisfied"))
    if not re.search(r"Self::Unconstrained => true, Self::Unsatisfiable => false, Self::Constrained\(bytes\) => data\.starts_with\(bytes\)", flat):
        raise TranslateError("HeaderConstraint::is_satisfied has an unexpected shape")
    flat = re.sub(r"\s+", " ", fn_body(rules, "contains", start=rules.index("impl FilesizeBounds")))
    for pat in (r"Bound::Included\(start\) => value >= start", r"Bound::Excluded\(start\) => value > start",
                r"Bound::Included\(end\) => value <= end", r"Bound::Excluded\(end\) => value < end", r"start_ok && end_ok"):
        if not re.search(pat, flat):
            raise TranslateError(f"FilesizeBounds::contains: `{pat}` not found")


def main():
    rules = src("lib/src/compiler/rules.rs")
    impl = impl_block(rules, r"impl\s+FilesizeBounds\s*\{", "impl FilesizeBounds")
    ms = merge_table(impl, "max_start", "start")
    me = merge_table(impl, "min_end", "end")
    ir_text = src("lib/src/compiler/ir/mod.rs")
    arms = fs_arms(ir_text)
    check_const_helpers(ir_text)
    table = int_read_table(ir_text)
    flags = excluded_flags(ir_text)
    check_pruning_sites()

    def merge_def(name, t):
        b = lambda s: "true" if s == "Included" else "false"
        lines = [f"Definition {name} (cur_incl new_incl : bool) (cur new : Z) : bool :=", "  match cur_incl, new_incl with"]
        for (c, n), op in t.items():
            lines.append(f"  | {b(c)}, {b(n)} => {CMP[op]} new cur   (* ({c}(current), {n}(new)): if new {op} current *)")
        lines.append("  end.")
        return "\n".join(lines)

    arm_lines = []
    for (op, left), (upper, incl) in arms.items():
        arm_lines.append(f"  | F{op}, {'true' if left else 'false'} => ({'true' if upper else 'false'}, {'true' if incl else 'false'})")
    tab = ";\n   ".join('("%s", [%s])' % (n, "; ".join(f"({a}, {w}, {s})" for a, w, s in parts)) for n, parts in table)
    out = f"""(* GENERATED by translate/gen_bounds.py from lib/src/compiler/rules.rs and
   lib/src/compiler/ir/mod.rs -- do not edit; regenerated on every check. *)
From Coq Require Import ZArith String List.
Import ListNotations.
Local Open Scope Z_scope.
Local Open Scope string_scope.

(* FilesizeBounds::max_start: does the new bound replace the current one? *)
{merge_def('max_start_replace', ms)}

(* FilesizeBounds::min_end *)
{merge_def('min_end_replace', me)}

(* IR::filesize_bounds: comparison, constant on the left? -> (upper bound?, inclusive?) *)
Inductive fcmp := FGt | FGe | FLt | FLe.
Definition fs_arm (op : fcmp) (const_left : bool) : bool * bool :=
  match op, const_left with
{chr(10).join(arm_lines)}
  end.

(* IR::apply_int_read_constraint: name -> [(offset addend, width of the cast, right shift)] *)
Definition int_read_table : list (string * list (Z * Z * Z)) :=
  [{tab}].

(* pattern flags that make `$p at 0` ineligible as a header constraint *)
Definition header_excluded_flags : list string := [{"; ".join('"%s"' % f for f in flags)}].
"""
    write_if_changed("BoundsGen.v", out)


if __name__ == "__main__":
    main()
