#!/usr/bin/env python3
"""Gen/CapiEffects.v from capi/src/*.rs (C19).

For every exported `pub [unsafe] extern "C" fn` of the C API: the list of its
return paths, each with the result (a `YRX_RESULT` variant, or "other" for
functions that do not return YRX_RESULT) and the effect on the calling thread's
last-error slot that is in force when that path returns:

  SetNone    the last `_yrx_set_last_error` executed on the path is `(None)`
  SetSome    ... is `(Some(..))`
  Unchanged  no `_yrx_set_last_error` is executed on the path

The extraction is an abstract walk of the function body: statements in order,
`if`/`if let`/`match` arms as alternatives (each continues from the state before
the construct), `return e` ends a path, the tail expression ends a path, calls to
other functions of the crate that return YRX_RESULT or Result<_, YRX_RESULT>
(`str_from_ptr`, `yrx_scanner_set_global`, `yrx_compiler_define_global`, ...)
are expanded from their own summaries (tail calls, `match helper(..) { Ok(v) =>
.., Err(err) => return err }`).  `#[cfg(feature = ..)]` statements are resolved
against the features the harness builds the crate with.  Closure bodies are not
entered (they must not mention the last-error slot or result codes).

Anything else that mentions `_yrx_set_last_error`, `LAST_ERROR`, `YRX_RESULT::`,
`return`, `?` or an effectful helper in a position the walk does not understand
raises TranslateError: the table is never guessed.

Also generated: the YRX_RESULT variants in declaration order (their C values),
how the slot is stored (`thread_local!` or a plain static), and how the message
is converted (`CString::new(..).unwrap()`).
"""
import re, os, glob
from tlib import *

FILES = ["lib.rs", "compiler.rs", "rules.rs", "scanner.rs", "rule.rs", "pattern.rs", "metadata.rs"]
SET = "_yrx_set_last_error"


# ------------------------------------------------------------------ lexical
def neutralize(s):
    """Same-length copy of s with comments blanked and the contents of string
    and char literals replaced by '_' (so that brackets and keywords inside
    them are invisible to the walker)."""
    out = list(s)
    i, n = 0, len(s)
    while i < n:
        if s.startswith("//", i):
            j = s.find("\n", i)
            j = n if j < 0 else j
            for k in range(i, j): out[k] = " "
            i = j
        elif s.startswith("/*", i):
            j = s.find("*/", i + 2)
            j = n if j < 0 else j + 2
            for k in range(i, j):
                if out[k] != "\n": out[k] = " "
            i = j
        elif s[i] == '"':
            j = i + 1
            while j < n and s[j] != '"':
                j += 2 if s[j] == "\\" else 1
            for k in range(i + 1, min(j, n)):
                if out[k] != "\n": out[k] = "_"
            i = j + 1
        elif s[i] == "r" and re.match(r'r#*"', s[i:]) and (i == 0 or not (s[i - 1].isalnum() or s[i - 1] == "_")):
            m = re.match(r'r(#*)"', s[i:])
            close = '"' + m.group(1)
            j = s.find(close, i + len(m.group(0)))
            j = n if j < 0 else j
            for k in range(i + len(m.group(0)), j):
                if out[k] != "\n": out[k] = "_"
            i = j + len(close)
        elif s[i] == "'":
            # char literal or lifetime
            m = re.match(r"'(\\.[^']*|[^'\\])'", s[i:])
            if m:
                for k in range(i + 1, i + len(m.group(0)) - 1): out[k] = "_"
                i += len(m.group(0))
            else:
                i += 1
        else:
            i += 1
    return "".join(out)


OPEN, CLOSE = "([{", ")]}"


def find_top(s, pred, start=0):
    """index of the first position >= start at bracket depth 0 where pred(s, i)."""
    depth, i, n = 0, start, len(s)
    while i < n:
        c = s[i]
        if depth == 0 and pred(s, i):
            return i
        if c in OPEN: depth += 1
        elif c in CLOSE:
            depth -= 1
            if depth < 0:
                raise TranslateError(f"unbalanced brackets near {s[max(0,i-40):i+10]!r}")
        i += 1
    return -1


def close_of(s, i):
    """s[i] is an opening bracket; index of its closing partner."""
    depth, n = 0, len(s)
    j = i
    while j < n:
        if s[j] in OPEN: depth += 1
        elif s[j] in CLOSE:
            depth -= 1
            if depth == 0: return j
        j += 1
    raise TranslateError(f"unbalanced brackets after {s[i:i+40]!r}")


# ------------------------------------------------------------------ items
class Fn:
    def __init__(self, name, file, sig, ret, body, exported, in_impl, line):
        self.name, self.file, self.sig, self.ret, self.body = name, file, sig, ret, body
        self.exported, self.in_impl, self.line = exported, in_impl, line

    @property
    def kind(self):
        r = re.sub(r"\s+", "", self.ret or "")
        if r == "YRX_RESULT": return "result"
        if re.match(r"Result<.*,YRX_RESULT>$", r): return "res_err"
        if "YRX_RESULT" in r:
            raise TranslateError(f"{self.name}: return type {self.ret!r} mentions YRX_RESULT in a shape that is not understood")
        return "other"


def collect_fns(fname, text):
    """every `fn` item of a file (free functions and methods)."""
    fns = []
    # spans of impl/trait blocks, to know which fns are methods
    impl_spans = []
    for m in re.finditer(r"\b(?:impl|trait)\b[^;{]*\{", text):
        j = close_of(text, m.end() - 1)
        impl_spans.append((m.end() - 1, j))
    for m in re.finditer(r'((?:pub(?:\([a-z]+\))?\s+)?)((?:const\s+)?(?:unsafe\s+)?(?:extern\s+"_"\s+)?)fn\s+([A-Za-z_][A-Za-z_0-9]*)', text):
        name = m.group(3)
        # the neutralized text has "C" replaced by "_"
        i = m.end()
        depth = 0
        n = len(text)
        while i < n:
            c = text[i]
            if c in "(<[": depth += 1
            elif c in ")>]":
                if not (c == ">" and text[i - 1] == "-"): depth -= 1
            elif c == "{" and depth <= 0: break
            elif c == ";" and depth <= 0: break
            i += 1
        if i >= n or text[i] == ";":
            continue  # declaration without body (type alias `extern "C" fn(..)` is not matched: no name)
        j = close_of(text, i)
        sig = text[m.start():i]
        rm = None
        # return type: text after the `->` that follows the closing paren of the parameter list
        p0 = sig.find("(", sig.find(name) + len(name)) if "<" not in sig[sig.find(name) + len(name):sig.find("(")] else None
        if p0 is None:
            # generic function: skip the <...> list
            g0 = sig.find("<", sig.find(name) + len(name))
            d, k = 0, g0
            while k < len(sig):
                if sig[k] == "<": d += 1
                elif sig[k] == ">" and sig[k - 1] != "-":
                    d -= 1
                    if d == 0: break
                k += 1
            p0 = sig.find("(", k)
        p1 = close_of(sig, p0)
        rest = sig[p1 + 1:]
        rm = re.match(r"\s*->\s*(.*?)\s*(?:where\b.*)?$", rest, re.S)
        ret = rm.group(1).strip() if rm else ""
        exported = bool(re.match(r"pub\s+", m.group(1) or "")) and "extern" in m.group(2)
        in_impl = any(a < m.start() < b for a, b in impl_spans)
        line = text.count("\n", 0, m.start()) + 1
        fns.append(Fn(name, fname, sig, ret, text[i + 1:j], exported, in_impl, line))
    return fns


# ------------------------------------------------------------------ effects
def then(a, b):
    return a if b == "Unchanged" else b


KEYWORDS = re.compile(r"\breturn\b|" + SET + r"|\bLAST_ERROR\b|YRX_RESULT\s*::|\?\s*(?:[;.,)\]}]|$)")


class Walker:
    def __init__(self, fns, features):
        self.fns = fns            # name -> Fn (free functions only)
        self.features = features
        self.memo = {}
        self.stack = []
        # functions whose body touches the slot or produces result codes, directly or through another one
        self.interesting = {n for n, f in fns.items()
                            if re.search(SET + r"|\bLAST_ERROR\b|YRX_RESULT\s*::", f.body)}
        changed = True
        while changed:
            changed = False
            for n, f in fns.items():
                if n in self.interesting: continue
                if any(self.calls(f.body, g) for g in self.interesting):
                    self.interesting.add(n); changed = True

    # --- helpers
    def calls(self, text, name):
        return re.search(r"(?<![.\w])" + re.escape(name) + r"\s*(?:::\s*<[^;{}()]*>\s*)?\(", text) is not None

    def err(self, fn, msg, text=""):
        shown = re.sub(r"\s+", " ", text.strip())[:160]
        raise TranslateError(f"{fn.file}:{fn.name}: {msg}" + (f": {shown!r}" if text else ""))

    def plain(self, fn, text, what):
        """text must not touch the slot, produce codes, return, or call an effectful helper."""
        m = KEYWORDS.search(text)
        if m:
            self.err(fn, f"{what}: `{m.group(0).strip()}` in a position the walker does not understand", text)
        for g in self.interesting:
            if g == fn.name: continue
            if self.calls(text, g):
                s = self.summary(g)
                if any(e != "Unchanged" for _, e in s) or self.fns[g].kind != "other":
                    self.err(fn, f"{what}: call of `{g}` (which sets the last error or returns a result code) in a position the walker does not understand", text)

    # --- summaries
    def summary(self, name):
        """list of (value, effect); value = ('code', X) | ('err', X) | ('ok',) | ('other',)"""
        if name in self.memo: return self.memo[name]
        if name in self.stack:
            raise TranslateError(f"recursive call chain through {name}")
        fn = self.fns[name]
        self.stack.append(name)
        try:
            if name == SET:
                res = None  # primitive, never summarised
                raise TranslateError(f"{SET} used as an ordinary helper")
            rets, outs = self.block(fn, fn.body, "Unchanged", {})
            paths = []
            kind = fn.kind
            for v, e in rets + outs:
                if kind == "result":
                    if v[0] != "code":
                        self.err(fn, f"a return path of a function returning YRX_RESULT yields {v} (cannot classify)")
                elif kind == "res_err":
                    if v[0] not in ("ok", "err"):
                        self.err(fn, f"a return path of a function returning Result<_, YRX_RESULT> yields {v} (cannot classify)")
                else:
                    if v[0] in ("code", "err"):
                        self.err(fn, f"a function that does not return YRX_RESULT yields {v}")
                    v = ("other",)
                if (v, e) not in paths: paths.append((v, e))
            if not paths:
                self.err(fn, "no return path found")
            self.memo[name] = paths
            return paths
        finally:
            self.stack.pop()

    # --- statements
    def strip_attrs(self, fn, stmt):
        """returns (text_without_attributes, active?)"""
        active = True
        s = stmt.lstrip()
        while s.startswith("#["):
            j = close_of(s, 1)
            attr = s[:j + 1]
            a = re.sub(r"\s+", "", attr)
            if a.startswith("#[cfg"):
                m = re.match(r'#\[cfg\((not\()?feature=<([A-Za-z0-9_\-]+)>\)?\)\]$', a)
                if not m:
                    self.err(fn, "cfg attribute not understood", attr)
                on = m.group(2) in self.features
                if m.group(1): on = not on
                active = active and on
            s = s[j + 1:].lstrip()
        return s, active

    def split_stmts(self, fn, body_neut, body_orig):
        """list of (neutralized text, original text, has_semicolon)"""
        stmts, i, n, start = [], 0, len(body_neut), 0
        depth = 0
        while i < n:
            c = body_neut[i]
            if c in OPEN: depth += 1
            elif c in CLOSE:
                depth -= 1
                if depth == 0 and c == "}":
                    head = body_neut[start:i + 1].lstrip()
                    while head.startswith("#["):
                        head = head[close_of(head, 1) + 1:].lstrip()
                    if re.match(r"(if|match|for|while|loop|unsafe)\b|\{", head):
                        rest = body_neut[i + 1:].lstrip()
                        if not re.match(r"else\b|[.?;]|as\b|[-+*/%&|^=<>]", rest):
                            stmts.append((body_neut[start:i + 1], body_orig[start:i + 1], False)); start = i + 1
            elif c == ";" and depth == 0:
                stmts.append((body_neut[start:i], body_orig[start:i], True)); start = i + 1
            i += 1
        tail = body_neut[start:]
        if tail.strip():
            stmts.append((tail, body_orig[start:], False))
        return stmts

    def block(self, fn, body, st, env):
        """Walk a block starting in state st.  returns (returns, outs)."""
        rets = []
        states = [st]
        stmts = []
        for neut, orig, semi in self.split_stmts(fn, body, body):
            s, active = self.strip_attrs(fn, neut)
            if not active: continue
            sn = neut.lstrip()
            while sn.startswith("#["):
                sn = sn[close_of(sn, 1) + 1:].lstrip()
            stmts.append((sn, semi))
        outs = []
        for k, (s, semi) in enumerate(stmts):
            last = k == len(stmts) - 1
            new_states = []
            for cur in states:
                r, o = self.stmt(fn, s, cur, env)
                rets += r
                if last and not semi:
                    outs += o
                else:
                    for v, e in o:
                        if e not in new_states: new_states.append(e)
            states = new_states
            if last and not semi:
                states = []
        # block ending with `;` (or empty): unit value in each surviving state
        for e in states:
            outs.append((("unit",), e))
        return rets, outs

    def stmt(self, fn, s, st, env):
        s = s.strip()
        m = re.match(r"let\b", s)
        if m:
            # let PAT [: T] = EXPR [else { .. }]
            eq = find_top(s, lambda t, i: t[i] == "=" and t[i + 1:i + 2] != "=" and t[i - 1] not in "=!<>+-*/%&|^")
            if eq < 0:
                self.plain(fn, s, "let without initialiser"); return [], [(("unit",), st)]
            self.plain(fn, s[:eq], "let pattern")
            rhs = s[eq + 1:].strip()
            # let-else
            em = None
            k = find_top(rhs, lambda t, i: t.startswith("else", i) and re.match(r"else\s*\{", t[i:]) and (i == 0 or not (t[i - 1].isalnum() or t[i - 1] == "_")))
            if k > 0 and not re.match(r"(if|match)\b", rhs):
                init, els = rhs[:k], rhs[k + 4:].strip()
                r1, o1 = self.expr(fn, init, st, env)
                rets, outs = list(r1), []
                for v, e in o1:
                    outs.append((("unit",), e))
                    r2, o2 = self.block(fn, els[1:close_of(els, 0)], e, env)
                    rets += r2
                    if o2: self.err(fn, "let-else block does not diverge", els)
                return rets, outs
            r, o = self.expr(fn, rhs, st, env)
            return r, [(("unit",), e) for _, e in o]
        # assignment  PLACE = EXPR   (PLACE: identifiers, `*`, `.`, indexes)
        m = re.match(r"(\*?\s*[A-Za-z_][\w.]*(?:\[[^\]]*\])?)\s*=(?!=)", s)
        if m and not re.match(r"(if|match|return|for|while)\b", s):
            r, o = self.expr(fn, s[m.end():], st, env)
            return r, [(("unit",), e) for _, e in o]
        return self.expr(fn, s, st, env)

    # --- expressions
    def expr(self, fn, t, st, env):
        t = t.strip()
        if not t:
            return [], [(("unit",), st)]
        # return
        m = re.match(r"return\b", t)
        if m:
            r, o = self.expr(fn, t[m.end():], st, env)
            return r + o, []
        # diverging macros
        if re.match(r"(unreachable|panic|todo|unimplemented)!\s*\(", t) and close_of(t, t.find("(")) == len(t) - 1:
            return [], []
        # braces
        if t.startswith("{") and close_of(t, 0) == len(t) - 1:
            return self.block(fn, t[1:-1], st, env)
        m = re.match(r"unsafe\s*\{", t)
        if m and close_of(t, m.end() - 1) == len(t) - 1:
            return self.block(fn, t[m.end():-1], st, env)
        if re.match(r"match\b", t):
            return self.match(fn, t, st, env)
        if re.match(r"if\b", t):
            return self.if_(fn, t, st, env)
        m = re.match(r"for\b", t)
        if m:
            b = find_top(t, lambda x, i: x[i] == "{", m.end())
            if b < 0 or close_of(t, b) != len(t) - 1:
                self.err(fn, "for loop shape not understood", t)
            self.plain(fn, t[m.end():b], "for header")
            r, o = self.block(fn, t[b + 1:-1], st, env)
            for v, e in o:
                if e != st:
                    self.err(fn, "a loop body changes the last-error slot (not supported)", t)
            return r, [(("unit",), st)]
        if re.match(r"(while|loop)\b", t):
            self.plain(fn, t, "while/loop")
            return [], [(("unit",), st)]
        # the primitive
        m = re.match(SET + r"\s*(::\s*<[^()]*>)?\s*\(", t)
        if m and close_of(t, m.end() - 1) == len(t) - 1:
            arg = t[m.end():-1].strip()
            if arg == "None":
                return [], [(("unit",), "SetNone")]
            if re.match(r"Some\s*\(", arg) and close_of(arg, arg.find("(")) == len(arg) - 1:
                self.plain(fn, arg[arg.find("(") + 1:-1], "argument of " + SET)
                return [], [(("unit",), "SetSome")]
            self.err(fn, f"argument of {SET} is neither None nor Some(..)", t)
        # literal codes
        m = re.match(r"YRX_RESULT\s*::\s*(YRX_[A-Z0-9_]+)$", t)
        if m:
            return [], [(("code", m.group(1)), st)]
        m = re.match(r"Err\s*\(\s*YRX_RESULT\s*::\s*(YRX_[A-Z0-9_]+)\s*\)$", t)
        if m:
            return [], [(("err", m.group(1)), st)]
        m = re.match(r"Ok\s*\(", t)
        if m and close_of(t, m.end() - 1) == len(t) - 1 and fn.kind == "res_err":
            self.plain(fn, t[m.end():-1], "Ok(..) payload")
            return [], [(("ok",), st)]
        if re.match(r"[A-Za-z_]\w*$", t) and t in env:
            return [], [(("code", env[t]), st)]
        # call of a helper / another API function as the whole expression
        m = re.match(r"([A-Za-z_]\w*)\s*(::\s*<[^()]*>)?\s*\(", t)
        if m and m.group(1) in self.interesting and m.group(1) != SET and close_of(t, m.end() - 1) == len(t) - 1:
            self.plain(fn, t[m.end():-1], "arguments of " + m.group(1))
            return [], [(v, then(st, e)) for v, e in self.summary(m.group(1))]
        # anything else must be inert
        self.plain(fn, t, "expression")
        return [], [(("other",), st)]

    def helper_call(self, t):
        m = re.match(r"([A-Za-z_]\w*)\s*(::\s*<[^()]*>)?\s*\(", t)
        if m and m.group(1) in self.interesting and m.group(1) != SET and close_of(t, m.end() - 1) == len(t) - 1 \
                and self.fns[m.group(1)].kind == "res_err":
            return m.group(1), t[m.end():-1]
        return None

    def if_(self, fn, t, st, env):
        m = re.match(r"if\b", t)
        b = find_top(t, lambda x, i: x[i] == "{", m.end())
        if b < 0: self.err(fn, "if without block", t)
        cond = t[m.end():b].strip()
        e = close_of(t, b)
        then_states, else_states = [st], [st]
        lm = re.match(r"let\s+Ok\s*\(.*?\)\s*=\s*(.*)$", cond, re.S)
        hc = self.helper_call(lm.group(1).strip()) if lm else None
        if hc:
            self.plain(fn, hc[1], "arguments of " + hc[0])
            s = self.summary(hc[0])
            then_states = sorted({then(st, ef) for v, ef in s if v[0] == "ok"})
            else_states = sorted({then(st, ef) for v, ef in s if v[0] == "err"})
        else:
            self.plain(fn, cond, "if condition")
        rets, outs = [], []
        for s0 in then_states:
            r, o = self.block(fn, t[b + 1:e], s0, env); rets += r; outs += o
        rest = t[e + 1:].strip()
        if not rest:
            outs += [(("unit",), s0) for s0 in else_states]
            return rets, outs
        em = re.match(r"else\b", rest)
        if not em:
            self.err(fn, "text after if block not understood", rest)
        rest = rest[em.end():].strip()
        for s0 in else_states:
            r, o = self.expr(fn, rest, s0, env); rets += r; outs += o
        return rets, outs

    def match(self, fn, t, st, env):
        m = re.match(r"match\b", t)
        b = find_top(t, lambda x, i: x[i] == "{", m.end())
        if b < 0 or close_of(t, b) != len(t) - 1:
            self.err(fn, "match shape not understood (text after the arms?)", t)
        scrut = t[m.end():b].strip()
        hc = self.helper_call(scrut)
        if hc: self.plain(fn, hc[1], "arguments of " + hc[0])
        else: self.plain(fn, scrut, "match scrutinee")
        arms_text = t[b + 1:-1]
        arms, i, n = [], 0, len(arms_text)
        while True:
            while i < n and arms_text[i] in " \n\t,": i += 1
            if i >= n: break
            a = find_top(arms_text, lambda x, k: x.startswith("=>", k), i)
            if a < 0: self.err(fn, "match arm without =>", arms_text[i:])
            pat = arms_text[i:a].strip()
            j = a + 2
            while j < n and arms_text[j] in " \n\t": j += 1
            if j < n and arms_text[j] == "{":
                k = close_of(arms_text, j)
                body = arms_text[j:k + 1]; i = k + 1
            else:
                k = find_top(arms_text, lambda x, q: x[q] == ",", j)
                k = n if k < 0 else k
                body = arms_text[j:k]; i = k + 1
            while pat.startswith("#["):
                self.err(fn, "attribute on a match arm (not supported)", pat)
            arms.append((pat, body))
        if not arms: self.err(fn, "match without arms", t)
        rets, outs = [], []
        for pat, body in arms:
            self.plain(fn, pat, "match pattern")
            starts = [(st, env)]
            if hc:
                s = self.summary(hc[0])
                pm = re.match(r"Err\s*\(\s*([A-Za-z_]\w*)\s*\)$", pat)
                if re.match(r"Ok\s*\(.*\)$", pat, re.S):
                    starts = [(e0, env) for e0 in sorted({then(st, ef) for v, ef in s if v[0] == "ok"})]
                elif pm:
                    starts = []
                    for v, ef in s:
                        if v[0] == "err":
                            env2 = dict(env)
                            if pm.group(1) != "_": env2[pm.group(1)] = v[1]
                            starts.append((then(st, ef), env2))
                else:
                    self.err(fn, f"pattern on the result of {hc[0]} is neither Ok(..) nor Err(ident)", pat)
            for s0, env0 in starts:
                r, o = self.expr(fn, body, s0, env0); rets += r; outs += o
        return rets, outs


# ------------------------------------------------------------------ main
def harness_features():
    """features of yara-x-capi as built by the harness: defaults + those named in harness/Cargo.toml."""
    cargo = src("capi/Cargo.toml")
    m = re.search(r"^\s*default\s*=\s*\[(.*?)\]", cargo, re.M | re.S)
    if not m: raise TranslateError("capi/Cargo.toml: no default feature list")
    feats = set(re.findall(r'"([^"]+)"', m.group(1)))
    hp = os.path.join(os.path.dirname(os.path.abspath(__file__)), "..", "harness", "Cargo.toml")
    try:
        ht = open(hp, encoding="utf-8").read()
    except OSError as e:
        raise TranslateError(f"cannot read harness/Cargo.toml: {e}")
    m = re.search(r"^yara-x-capi\s*=\s*\{(.*?)\}", ht, re.M | re.S)
    if not m: raise TranslateError("harness/Cargo.toml: yara-x-capi dependency not found")
    fm = re.search(r"features\s*=\s*\[(.*?)\]", m.group(1), re.S)
    if fm: feats |= set(re.findall(r'"([^"]+)"', fm.group(1)))
    if re.search(r"default-features\s*=\s*false", m.group(1)):
        feats -= set(re.findall(r'"([^"]+)"', re.search(r"^\s*default\s*=\s*\[(.*?)\]", cargo, re.M | re.S).group(1)))
    return feats


def result_variants(lib):
    body, _, _ = block_after(strip_comments(lib), r"pub\s+enum\s+YRX_RESULT\s*\{", "enum YRX_RESULT")
    vs = [v for v in re.findall(r"\b(YRX_[A-Z0-9_]+)\b\s*(?:=\s*\d+\s*)?,", body + ",")]
    if "=" in body:
        raise TranslateError("enum YRX_RESULT has explicit discriminants (numbering not understood)")
    if len(vs) < 2 or "YRX_SUCCESS" not in vs:
        raise TranslateError("enum YRX_RESULT: variants not found")
    if vs[0] != "YRX_SUCCESS":
        raise TranslateError("enum YRX_RESULT: YRX_SUCCESS is not the first variant")
    if not re.search(r"#\[repr\(C\)\]\s*pub\s+enum\s+YRX_RESULT", strip_comments(lib)):
        raise TranslateError("enum YRX_RESULT is not #[repr(C)]")
    return vs


def storage_and_conversion(texts, fns):
    lib = strip_comments(texts["lib.rs"])
    if re.search(r"thread_local!\s*\{\s*static\s+LAST_ERROR\s*:", lib):
        storage = "ThreadLocal"
    elif re.search(r"\bstatic\s+(?:mut\s+)?LAST_ERROR\s*:", lib):
        storage = "Global"
    else:
        raise TranslateError("declaration of LAST_ERROR not found")
    # who touches the slot
    touch = sorted(n for n, f in fns.items() if re.search(r"\bLAST_ERROR\b", f.body))
    if touch != sorted([SET, "yrx_last_error"]):
        raise TranslateError(f"LAST_ERROR is touched by {touch}; expected only {SET} (write) and yrx_last_error (read)")
    sb = re.sub(r"\s+", "", fns[SET].body)
    m = re.match(r"LAST_ERROR\.set\(err\.map\(\|err\|(.*)\)\);?$", sb)
    if not m:
        raise TranslateError(f"{SET}: body is not `LAST_ERROR.set(err.map(|err| ..))`: {sb[:120]}")
    conv_src = m.group(1)
    if conv_src == "CString::new(err.to_string()).unwrap()":
        conv = "CStringNewUnwrap"
    else:
        raise TranslateError(f"{SET}: message conversion not understood: {conv_src[:120]}")
    rb = re.sub(r"\s+", "", fns["yrx_last_error"].body)
    if not rb.startswith("LAST_ERROR.with_borrow(|") or re.search(r"\.set\(|borrow_mut|\.take\(|\.replace\(", rb):
        raise TranslateError("yrx_last_error: body is not a read-only LAST_ERROR.with_borrow(..)")
    return storage, conv


def compiler_flags(texts):
    """flags of yrx_compiler_create: (constant, bit, Compiler method, argument) from
    `pub const YRX_X: u32 = N;` and the `if flags & YRX_X != 0 { compiler.m(b); }`
    statements of _yrx_compiler_create; also checks that yrx_compiler_create stores the
    flags and yrx_compiler_build re-creates the inner compiler with them."""
    comp = strip_comments(texts["compiler.rs"])
    consts = re.findall(r"pub\s+const\s+(YRX_[A-Z0-9_]+)\s*:\s*u32\s*=\s*(\d+)\s*;", comp)
    if len(consts) < 2:
        raise TranslateError("compiler.rs: flag constants `pub const YRX_X: u32 = N;` not found")
    body = fn_body(comp, "_yrx_compiler_create")
    body = re.sub(r"\s+", " ", body).strip()
    m = re.match(r"let mut compiler = yara_x::Compiler::new\(\); (.*) compiler$", body)
    if not m:
        raise TranslateError("_yrx_compiler_create: body is not `let mut compiler = yara_x::Compiler::new(); <ifs> compiler`")
    rest, found = m.group(1).strip(), []
    stmt = re.compile(r"if flags & (YRX_[A-Z0-9_]+) != 0 \{ compiler\.([a-z_0-9]+)\((true|false)\); \}\s*")
    while rest:
        sm = stmt.match(rest)
        if not sm:
            raise TranslateError(f"_yrx_compiler_create: statement not understood: {rest[:100]!r}")
        found.append((sm.group(1), sm.group(2), sm.group(3)))
        rest = rest[sm.end():]
    cmap = dict(consts)
    out = []
    for c, meth, arg in found:
        if c not in cmap:
            raise TranslateError(f"_yrx_compiler_create tests {c}, which is not a flag constant of compiler.rs")
        out.append((c, int(cmap[c]), meth, arg))
    unhandled = [c for c, _ in consts if c not in [f[0] for f in found]]
    cb = re.sub(r"\s+", "", fn_body(comp, "yrx_compiler_create"))
    if "inner:_yrx_compiler_create(flags),flags," not in cb:
        raise TranslateError("yrx_compiler_create does not build `YRX_COMPILER { inner: _yrx_compiler_create(flags), flags }`")
    bb = re.sub(r"\s+", "", fn_body(comp, "yrx_compiler_build"))
    rebuilt = "mem::replace(&mutcompiler.inner,_yrx_compiler_create(compiler.flags),)" in bb or \
              "mem::replace(&mutcompiler.inner,_yrx_compiler_create(compiler.flags))" in bb
    # the header must define the same constants with the same values
    hdr = src("capi/include/yara_x.h")
    hconsts = dict(re.findall(r"#define\s+(YRX_[A-Z0-9_]+)\s+(\d+)", hdr))
    for c, v in consts:
        if hconsts.get(c) != v:
            raise TranslateError(f"capi/include/yara_x.h: {c} is {hconsts.get(c)!r}, compiler.rs says {v}")
    return out, unhandled, rebuilt


def nows(t): return re.sub(r"\s+", "", t)


def value_plumbing(fns):
    """Which Rust expression every C-visible value is filled from.

    * out parameters: `*<param> = <expr>;` statements of exported functions;
    * structures handed to callbacks / returned: the `YRX_X { field: expr, .. }` literals;
    * iteration sources: `for <pat> in <expr> {` loops that invoke a callback, with the callback's first argument;
    * the metadata match: MetaValue variant -> (type tag, union member, payload expression);
    * global setters: type of the `value` parameter and the helper call it is passed to."""
    outs, structs, loops, meta, setters, cstrs = [], [], [], [], [], []
    exported = [f for f in fns.values() if f.exported]
    for fn in sorted(exported, key=lambda f: (FILES.index(f.file), f.line)):
        body = fn.body
        flat = nows(body)
        for m in re.finditer(r"(?:(?<=^)|(?<=[;{}]))\*([a-z_]+)=([^;]+);", flat):
            outs.append((fn.name, m.group(1), m.group(2)))
        for m in re.finditer(r"let\s+([a-z_]+)\s*=\s*CString::new\(([^;]*?)\)\s*\.unwrap\(\)\s*;", body):
            cstrs.append((fn.name, m.group(1), nows(m.group(2))))
        for m in re.finditer(r"\b(YRX_[A-Z_]+)\s*\{", body):
            name = m.group(1)
            if name in ("YRX_RESULT",): continue
            j = close_of(body, m.end() - 1)
            inner = body[m.end():j]
            if "=>" in inner or ";" in inner: continue      # a match/block, not a literal
            # split fields at top-level commas
            parts, depth, cur = [], 0, ""
            for ch in inner:
                if ch in OPEN: depth += 1
                elif ch in CLOSE: depth -= 1
                if ch == "," and depth == 0: parts.append(cur); cur = ""
                else: cur += ch
            if cur.strip(): parts.append(cur)
            for part in parts:
                if ":" not in part: continue
                k, v = part.split(":", 1)
                structs.append((fn.name, name, nows(k).replace("r#", ""), nows(v)))
        for m in re.finditer(r"\bfor\s+(.+?)\s+in\s+([^{]+?)\s*\{", body, re.S):
            b0 = body.find("{", m.end() - 1)
            b1 = close_of(body, b0)
            cm = re.search(r"\bcallback\s*\(", body[b0:b1])
            if not cm: continue
            a0 = b0 + cm.end() - 1
            a1 = close_of(body, a0)
            args = body[a0 + 1:a1]
            first = args.split(",")[0] if "{" not in args.split(",")[0] else args[:args.find("{")] + "{..}"
            it = nows(m.group(2))
            if re.match(r"[a-z_]+$", it):
                # `let it = if let Some(x) = p.as_ref() { EXPR } else { return .. };`
                lm = re.search(r"let\s+" + it + r"\s*=\s*if\s+let\s+Some\(\w+\)\s*=\s*\w+\.as_ref\(\)\s*\{\s*([^{}]+?)\s*\}", body)
                if lm: it = nows(lm.group(1))
            loops.append((fn.name, nows(m.group(1)), it, nows(first)))
        if fn.name == "yrx_rule_iter_metadata":
            mm = re.search(r"match\s+value\s*\{", body)
            if not mm: raise TranslateError("yrx_rule_iter_metadata: `match value {` not found")
            j = close_of(body, mm.end() - 1)
            arms = body[mm.end():j]
            for am in re.finditer(r"MetaValue::([A-Za-z]+)\(v\)\s*(?:if\s+([^=]+?))?\s*=>", arms):
                k = am.end()
                while arms[k] in " \n\t": k += 1
                e = close_of(arms, k)
                arm = arms[k:e + 1]
                tm = re.search(r"YRX_METADATA_TYPE::(YRX_[A-Z0-9_]+)", arm)
                vm = re.search(r"YRX_METADATA_VALUE\s*\{\s*(?:r#)?([a-z0-9_]+)\s*:\s*", arm)
                if not tm or not vm: raise TranslateError(f"yrx_rule_iter_metadata: arm of MetaValue::{am.group(1)} not understood")
                # payload expression: up to the matching close of the union literal
                u0 = arm.find("{", vm.start())
                u1 = close_of(arm, u0)
                payload = nows(arm[vm.end():u1]).rstrip(",")
                if payload == "string.as_ptr()":
                    sm = re.search(r"string\s*=\s*([^;]+);", arm)
                    if not sm: raise TranslateError("yrx_rule_iter_metadata: `string = ..;` not found in the String arm")
                    payload = nows(sm.group(1)) + ".as_ptr()"
                meta.append((am.group(1), tm.group(1), vm.group(1), payload, nows(am.group(2) or "")))
            if len(re.findall(r"MetaValue::", arms)) != len(meta):
                raise TranslateError("yrx_rule_iter_metadata: an arm of the metadata match was not understood")
            if len(meta) < 2: raise TranslateError("yrx_rule_iter_metadata: MetaValue arms not found")
        gm = re.match(r"yrx_(scanner_set|compiler_define)_global_([a-z]+)$", fn.name)
        if gm:
            pm = re.search(r"\bvalue\s*:\s*([^,)]+)", fn.sig)
            if not pm: raise TranslateError(f"{fn.name}: parameter `value` not found")
            helper = "yrx_scanner_set_global" if gm.group(1) == "scanner_set" else "yrx_compiler_define_global"
            cm = re.search(re.escape(helper) + r"\s*\(\s*(\w+)\s*,\s*(\w+)\s*,\s*(\w+)\s*\)", body)
            if not cm: raise TranslateError(f"{fn.name}: call of {helper}(.., .., value) not found")
            # conversions applied to `value` before the call
            conv = []
            if re.search(r"str_from_ptr\s*\(\s*value\s*\)|CStr::from_ptr\s*\(\s*value\s*\)\s*\.to_str\(\)", body): conv.append("utf8")
            if re.search(r"serde_json::from_str\s*\(\s*value\s*\)", body): conv.append("json")
            setters.append((fn.name, nows(pm.group(1)), helper, cm.group(3), "+".join(conv)))
    # the helpers hand the value to the Rust API unchanged
    helpers = []
    for h, meth in (("yrx_scanner_set_global", "set_global"), ("yrx_compiler_define_global", "define_global")):
        if h not in fns: raise TranslateError(f"{h} not found")
        m = re.search(r"\.inner\s*\.\s*" + meth + r"\s*\(\s*(\w+)\s*,\s*(\w+)\s*\)", fns[h].body)
        if not m: raise TranslateError(f"{h}: call of .inner.{meth}(ident, value) not found")
        helpers.append((h, meth, m.group(1), m.group(2)))
    return outs, structs, loops, meta, setters, helpers, cstrs


def pending_inputs(fns):
    """How every exported function treats the scanner's pending module data
    (`YRX_SCANNER.module_data`, filled by yrx_scanner_set_module_data): the methods it calls on it, in order
    (insert / drain / iter / clear / ...), and whether the call happens before the block-mode check."""
    rows = []
    for fn in sorted((f for f in fns.values() if f.exported), key=lambda f: (FILES.index(f.file), f.line)):
        ops = re.findall(r"\.\s*module_data\s*\.\s*([a-z_]+)\s*\(", fn.body)
        for o in ops:
            if o not in ("insert", "drain", "iter", "clear", "is_empty", "len", "remove", "get", "contains_key"):
                raise TranslateError(f"{fn.name}: unknown operation `{o}` on module_data")
        if ops: rows.append((fn.name, ops))
    if not any(n == "yrx_scanner_set_module_data" and "insert" in o for n, o in rows):
        raise TranslateError("yrx_scanner_set_module_data does not insert into module_data")
    # the struct field itself
    return rows


def inner_calls(fns):
    """Calls `<obj>.inner.<method>(<args>)` of exported functions: which value each simple setter hands to
    the Rust object (function, method, arguments with white space removed)."""
    rows = []
    for fn in sorted((f for f in fns.values() if f.exported), key=lambda f: (FILES.index(f.file), f.line)):
        for m in re.finditer(r"\b(?:scanner|compiler)\s*\.\s*inner\s*\.\s*([a-z_]+)\s*\(", fn.body):
            a0 = m.end() - 1
            a1 = close_of(fn.body, a0)
            rows.append((fn.name, m.group(1), nows(fn.body[a0 + 1:a1])))
    if not any(r[0] == "yrx_scanner_set_timeout" for r in rows):
        raise TranslateError("yrx_scanner_set_timeout: call of scanner.inner.set_timeout(..) not found")
    return rows


def header_timeout_unit():
    hdr = src("capi/include/yara_x.h")
    m = re.search(r"((?:^//[^\n]*\n)+)[^\n]*\byrx_scanner_set_timeout\s*\(", hdr, re.M)
    if not m: raise TranslateError("capi/include/yara_x.h: yrx_scanner_set_timeout not found")
    u = re.search(r"Sets a timeout \(in ([a-z]+)\)", m.group(1))
    if not u: raise TranslateError("capi/include/yara_x.h: the comment of yrx_scanner_set_timeout no longer states the unit")
    return u.group(1)


def header_invalid_state():
    """Functions for which capi/include/yara_x.h documents YRX_INVALID_STATE: the comment of the function
    itself says "this function returns `YRX_INVALID_STATE`", or another comment says that a call to it
    "will fail with [`YRX_RESULT::YRX_INVALID_STATE`]"."""
    hdr = src("capi/include/yara_x.h")
    fns = []
    for m in re.finditer(r"((?:^//[^\n]*\n)+)(?:[A-Za-z_][A-Za-z_0-9 \*]*?)\b(yrx_[a-z_0-9]+)\s*\(", hdr, re.M):
        comment = re.sub(r"\s*\n//\s?", " ", m.group(1))
        if re.search(r"this function returns\s+`?(?:YRX_RESULT::)?YRX_INVALID_STATE", comment):
            fns.append(m.group(2))
        for r in re.finditer(r"call to \[?`?(yrx_[a-z_0-9]+)`?\]?\s+will\s+fail\s+with\s+\[?`?(?:YRX_RESULT::)?YRX_INVALID_STATE", comment):
            fns.append(r.group(1))
    out = []
    for f in fns:
        if f not in out: out.append(f)
    if not out:
        raise TranslateError("capi/include/yara_x.h: no function documented as returning YRX_INVALID_STATE (comment shape changed?)")
    if "YRX_INVALID_STATE" not in hdr or not re.search(r"multi-block\s*//\s*mode has been used as a standard scanner|multi-block\s+mode has been used as a standard scanner", re.sub(r"\n\s*//", " ", hdr)):
        raise TranslateError("capi/include/yara_x.h: the description of YRX_INVALID_STATE changed")
    return out


def enum_variants(text, name, what):
    body, _, _ = block_after(strip_comments(text), r"pub\s+enum\s+" + name + r"\b[^{]*\{", what)
    vs = re.findall(r"^\s*([A-Za-z_][A-Za-z0-9_]*)\s*(?:\([^)]*\))?\s*,", body, re.M)
    if len(vs) < 2: raise TranslateError(f"{what}: variants not found")
    return vs


def analyse():
    texts, fns, methods = {}, {}, []
    for f in FILES:
        texts[f] = src("capi/src/" + f)
    present = sorted(os.path.basename(p) for p in glob.glob(os.path.join(REPO, "capi", "src", "*.rs")))
    extra = [p for p in present if p not in FILES and p != "tests.rs"]
    if extra:
        raise TranslateError(f"capi/src has source files the translator does not know: {extra}")
    for f in FILES:
        # feature names inside #[cfg(..)] survive neutralisation as <name>
        pre = re.sub(r"#\[cfg\([^\]]*\)\]", lambda m: re.sub(r'"([^"]*)"', r"<\1>", m.group(0)), texts[f])
        neut = neutralize(pre)
        for fn in collect_fns(f, neut):
            if fn.in_impl:
                methods.append(fn)
            else:
                if fn.name in fns:
                    raise TranslateError(f"two free functions named {fn.name}")
                fns[fn.name] = fn
    for mth in methods:
        if re.search(SET + r"|\bLAST_ERROR\b|YRX_RESULT\s*::", mth.body):
            raise TranslateError(f"method {mth.name} in {mth.file} touches the last error / result codes (methods are not resolved)")
    if SET not in fns or "yrx_last_error" not in fns:
        raise TranslateError(f"{SET} / yrx_last_error not found")
    lib = texts["lib.rs"]
    variants = result_variants(lib)
    storage, conv = storage_and_conversion(texts, fns)
    feats = harness_features()
    w = Walker({n: f for n, f in fns.items() if n != SET}, feats)
    w.fns[SET] = fns[SET]
    w.interesting.discard(SET)
    # yrx_last_error only reads the slot
    w.memo["yrx_last_error"] = [(("other",), "Unchanged")]
    exported = [f for f in fns.values() if f.exported]
    if len(exported) < 20:
        raise TranslateError(f"only {len(exported)} exported functions found")
    # every #[no_mangle] must belong to a function we recognised as exported
    nm = sum(len(re.findall(r"#\[(?:unsafe\()?no_mangle\)?\]", strip_comments(texts[f]))) for f in FILES)
    if nm != len(exported):
        raise TranslateError(f"{nm} #[no_mangle] attributes but {len(exported)} exported functions recognised")
    table = []
    order = {f: i for i, f in enumerate(FILES)}
    for fn in sorted(exported, key=lambda f: (order[f.file], f.line)):
        if not fn.name.startswith("yrx_"):
            raise TranslateError(f"exported function {fn.name} does not start with yrx_")
        paths = w.summary(fn.name)
        for v, e in paths:
            if v[0] == "code" and v[1] not in variants:
                raise TranslateError(f"{fn.name}: unknown result code {v[1]}")
        table.append((fn, paths))
    return variants, storage, conv, table, sorted(feats)


def observations(variants, table):
    """success paths that do not clear the slot (reported in the evidence, not demanded)."""
    obs = []
    for fn, paths in table:
        for v, e in paths:
            if v == ("code", "YRX_SUCCESS") and e != "SetNone":
                obs.append(f"{fn.name}: YRX_SUCCESS with slot {e}")
    return obs


def main():
    variants, storage, conv, table, feats = analyse()
    L = []
    L.append("(* GENERATED by translate/gen_capi.py from capi/src/{lib,compiler,rules,scanner,rule,pattern,metadata}.rs")
    L.append("   -- do not edit; regenerated on every check.  Features of yara-x-capi as built by the harness: "
             + ", ".join(feats) + ". *)")
    L.append("From Coq Require Import List String NArith.")
    L.append("Import ListNotations.")
    L.append("Local Open Scope string_scope.")
    L.append("")
    L.append("(* enum YRX_RESULT (#[repr(C)], declaration order = C value) *)")
    L.append("Inductive code := " + " | ".join(variants) + ".")
    L.append("Definition all_codes : list code := [" + "; ".join(variants) + "].")
    L.append("Definition code_num (c : code) : N :=\n  match c with " + " ".join(f"| {v} => {i}%N" for i, v in enumerate(variants)) + " end.")
    L.append("Definition code_name (c : code) : string :=\n  match c with " + " ".join(f'| {v} => "{v}"' for v in variants) + " end.")
    L.append("")
    L.append("(* what a return path yields / does to the calling thread's last-error slot *)")
    L.append("Inductive rkind := RCode (c : code) | ROther.")
    L.append("Inductive eff := SetNone | SetSome | Unchanged.")
    L.append("")
    L.append("(* `thread_local! { static LAST_ERROR .. }` or a process-wide static *)")
    L.append("Inductive storage := ThreadLocal | Global.")
    L.append(f"Definition last_error_storage : storage := {storage}.")
    L.append("(* _yrx_set_last_error: LAST_ERROR.set(err.map(|err| CString::new(err.to_string()).unwrap())) *)")
    L.append("Inductive conversion := CStringNewUnwrap.")
    L.append(f"Definition set_conversion : conversion := {conv}.")
    L.append("")
    L.append("(* exported functions, in source order *)")
    L.append("Inductive fn :=\n  " + "\n  ".join("| F_" + fn.name for fn, _ in table) + ".")
    L.append("Definition all_fns : list fn :=\n  [" + ";\n   ".join("F_" + fn.name for fn, _ in table) + "].")
    L.append("Definition fn_name (f : fn) : string :=\n  match f with\n" + "\n".join(f'  | F_{fn.name} => "{fn.name}"' for fn, _ in table) + "\n  end.")
    L.append("Definition fn_num (f : fn) : N :=\n  match f with\n" + "\n".join(f"  | F_{fn.name} => {i}%N" for i, (fn, _) in enumerate(table)) + "\n  end.")
    L.append("(* declared return type is YRX_RESULT *)")
    L.append("Definition returns_result (f : fn) : bool :=\n  match f with\n" + "\n".join(
        f"  | F_{fn.name} => {'true' if fn.kind == 'result' else 'false'}" for fn, _ in table) + "\n  end.")
    L.append("")

    def cv(v): return f"RCode {v[1]}" if v[0] == "code" else "ROther"
    L.append("Definition paths_of (f : fn) : list (rkind * eff) :=\n  match f with")
    for fn, paths in table:
        L.append(f"  (* {fn.file}:{fn.line} *)")
        L.append(f"  | F_{fn.name} => [" + "; ".join(f"({cv(v)}, {e})" for v, e in paths) + "]")
    L.append("  end.")
    L.append("")
    flags, unhandled, rebuilt = compiler_flags({f: src("capi/src/" + f) for f in ["compiler.rs"]})
    # ---- value plumbing
    texts0 = {f: src("capi/src/" + f) for f in FILES}
    fns0 = {}
    for f in FILES:
        pre = re.sub(r"#\[cfg\([^\]]*\)\]", lambda m: re.sub(r'"([^"]*)"', r"<\1>", m.group(0)), texts0[f])
        for fn in collect_fns(f, neutralize(pre)):
            if not fn.in_impl: fns0[fn.name] = fn
    outs, structs, loops, meta, setters, helpers, cstrs = value_plumbing(fns0)
    q = lambda x: '"' + x.replace('"', "'") + '"'
    L.append("(* ---- value plumbing: which Rust expression each C-visible value is filled from ---- *)")
    L.append("(* `*<out parameter> = <expr>;` of exported functions: (function, parameter, expression) *)")
    L.append("Definition out_params : list (string * string * string) :=\n  [" + ";\n   ".join(f"({q(a)}, {q(b)}, {q(c)})" for a, b, c in outs) + "].")
    L.append("(* `YRX_X { field: expr }` literals: (function, structure, field, expression) *)")
    L.append("Definition struct_fields : list (string * string * string * string) :=\n  [" + ";\n   ".join(f"({q(a)}, {q(b)}, {q(c)}, {q(d)})" for a, b, c, d in structs) + "].")
    L.append("(* loops that invoke a callback: (function, loop pattern, iterated expression, first callback argument) *)")
    L.append("Definition callback_loops : list (string * string * string * string) :=\n  [" + ";\n   ".join(f"({q(a)}, {q(b)}, {q(c)}, {q(d)})" for a, b, c, d in loops) + "].")
    L.append("(* `let x = CString::new(<expr>).unwrap();` of exported functions: (function, variable, expression) *)")
    L.append("Definition c_strings : list (string * string * string) :=\n  [" + ";\n   ".join(f"({q(a)}, {q(b)}, {q(c)})" for a, b, c in cstrs) + "].")
    L.append("(* yrx_rule_iter_metadata, arms without a guard: (MetaValue variant, YRX_METADATA_TYPE tag, YRX_METADATA_VALUE member, payload) *)")
    L.append("Definition meta_arms : list (string * string * string * string) :=\n  [" + ";\n   ".join(f"({q(a)}, {q(b)}, {q(c)}, {q(d)})" for a, b, c, d, g in meta if not g) + "].")
    L.append("(* arms with an `if` guard, tried before the others: (variant, guard, tag, member, payload) *)")
    L.append("Definition meta_guarded_arms : list (string * string * string * string * string) :=\n  [" + ";\n   ".join(f"({q(a)}, {q(g)}, {q(b)}, {q(c)}, {q(d)})" for a, b, c, d, g in meta if g) + "].")
    L.append("Definition metadata_type_tags : list string := [" + "; ".join(q(v) for v in enum_variants(src("capi/src/metadata.rs"), "YRX_METADATA_TYPE", "enum YRX_METADATA_TYPE")) + "].")
    L.append("(* enum MetaValue of lib/src/models.rs *)")
    L.append("Definition metavalue_variants : list string := [" + "; ".join(q(v) for v in enum_variants(src("lib/src/models.rs"), "MetaValue", "enum MetaValue")) + "].")
    L.append("(* global setters: (function, type of `value`, helper called, third argument, conversions applied to value) *)")
    L.append("Definition global_setters : list (string * string * string * string * string) :=\n  [" + ";\n   ".join(f"({q(a)}, {q(b)}, {q(c)}, {q(d)}, {q(e)})" for a, b, c, d, e in setters) + "].")
    L.append("(* the helpers pass (ident, value) on: (helper, Rust method, first argument, second argument) *)")
    L.append("Definition global_helpers : list (string * string * string * string) :=\n  [" + "; ".join(f"({q(a)}, {q(b)}, {q(c)}, {q(d)})" for a, b, c, d in helpers) + "].")
    L.append("")
    L.append("(* `<scanner|compiler>.inner.<method>(<args>)` in exported functions: the value each setter passes on *)")
    L.append("Definition inner_calls : list (string * string * string) :=\n  [" + ";\n   ".join(f"({q(a)}, {q(b)}, {q(c)})" for a, b, c in inner_calls(fns0)) + "].")
    L.append("(* unit of the timeout according to the comment of yrx_scanner_set_timeout in yara_x.h *)")
    L.append(f"Definition header_timeout_unit : string := {q(header_timeout_unit())}.")
    L.append("(* functions documented in capi/include/yara_x.h as returning YRX_INVALID_STATE (block scanning mode);")
    L.append("   the enum's own comment adds: a scanner in multi-block mode used as a standard scanner *)")
    L.append("Definition header_invalid_state : list string := [" + "; ".join(q(f) for f in header_invalid_state()) + "].")
    L.append("(* pending per-scan module data (YRX_SCANNER.module_data): operations each exported function performs on it *)")
    L.append("Definition module_data_ops : list (string * list string) :=\n  [" + ";\n   ".join(
        f"({q(n)}, [" + "; ".join(q(o) for o in ops) + "])" for n, ops in pending_inputs(fns0)) + "].")
    L.append("")
    L.append("(* yrx_compiler_create flags: constant, value, yara_x::Compiler method called when the bit is set, its argument")
    L.append("   (from the `if flags & YRX_X != 0 { compiler.m(b); }` statements of _yrx_compiler_create) *)")
    L.append("Definition compiler_flags : list (string * N * string * bool) :=\n  [" + ";\n   ".join(
        f'("{c}", {v}%N, "{m}", {a})' for c, v, m, a in flags) + "].")
    L.append("(* flag constants of compiler.rs that _yrx_compiler_create does not test *)")
    L.append("Definition compiler_flags_unhandled : list string := [" + "; ".join(f'"{c}"' for c in unhandled) + "].")
    L.append("(* yrx_compiler_build replaces the inner compiler by _yrx_compiler_create(compiler.flags) *)")
    L.append(f"Definition build_recreates_with_flags : bool := {'true' if rebuilt else 'false'}.")
    L.append("")
    write_if_changed("CapiEffects.v", "\n".join(L) + "\n")
    return {"functions": len(table), "paths": sum(len(p) for _, p in table),
            "success_not_clearing": observations(variants, table)}


if __name__ == "__main__":
    import json
    print(json.dumps(main(), indent=1))
