#!/usr/bin/env python3
"""Gen/CodecGen.v from lib/src/compiler/rules.rs and lib/src/compiler/mod.rs (C08).

Extracted, with a shape check for each item (TranslateError when the shape is gone):

* `const MAGIC: &[u8] = b"...";` -> the magic bytes; `const SERIALIZATION_VERSION: <int> = n;`
  -> the version and the width of its integer type;
* `Rules::serialize_into`: the order of the `write_all` calls / the bincode call (header layout),
  the byte order of `SERIALIZATION_VERSION.to_{le,be}_bytes()`, the bincode function and config;
* `Rules::deserialize`: `version_offset`, `data_offset`, the InvalidFormat condition (comparison
  operator on the length, (in)equality with MAGIC), `<int>::from_{le,be}_bytes`, the InvalidVersion
  condition, the bincode function and config, whether the consumed length is checked, and the
  post-decode sub-pattern bound check (operator);
* the bincode configurations used for the globals blob (Compiler::build / Rules::globals);
* the field list of `struct Rules` and of the structs nested in it (RuleInfo, PatternInfo,
  SubPatternAtom, FilesizeBounds, Atom) with their serde attributes (order = wire order); any
  other attribute on these structs or their fields is an error.
"""
import re, sys, os, json
from tlib import *
import rust_types as rt

PINS_FILE = os.path.join(os.path.dirname(os.path.abspath(__file__)), "codec_pins.json")

# Types whose Serialize/Deserialize impls are written by hand: the wire shape cannot be derived
# from a definition, it is stated here and pinned by a digest of the impls' source.  When the
# digest changes the translator fails until the shape below has been reviewed and the pin
# renewed with `python3 translate/gen_codec.py --repin`.
STR, BYTES = {"k": "str"}, {"k": "bytes"}
CUSTOM_TYPES = {
    # serialize_seq(len) + one str per interned string, in id order; visitor re-interns in order
    "StringPool": ({"k": "seq", "t": STR}, "lib/src/string_pool.rs",
                   [r"Serialize\s+for\s+StringPool\b", r"Deserialize<'de>\s+for\s+StringPool\b", r"Visitor<'de>\s+for\s+StringPoolVisitor\b"]),
    # the same with byte strings (`&[u8]` elements are sequences of u8 = the bytes form)
    "BStringPool": ({"k": "seq", "t": BYTES}, "lib/src/string_pool.rs",
                    [r"Serialize\s+for\s+BStringPool\b", r"Deserialize<'de>\s+for\s+BStringPool\b", r"Visitor<'de>\s+for\s+BStringPoolVisitor\b"]),
    # daachorse's own serialization as one byte vector; Teddy is rebuilt, not stored
    "AhoCorasick": (BYTES, "lib/src/compiler/rules.rs", [r"Serialize\s+for\s+AhoCorasick\b", r"Deserialize<'de>\s+for\s+AhoCorasick\b"]),
}
# serialize_with / deserialize_with functions: Option<bytes> (None unless native-code-serialization)
CUSTOM_FNS = {("serialize_wasm_mod", "deserialize_wasm_mod"): ({"k": "opt", "t": BYTES}, "lib/src/compiler/rules.rs")}
# types of other crates with their own serde impls (validated on real blobs, not derivable here)
U64 = {"k": "uint", "w": 64}
EXTERNAL = {
    # bitvec 1.x serdes/slice.rs: struct BitSeq { order: type name, head: BitIdx { width: u8, index: u8 }, bits: u64, data: [T] }
    "BitVec": {"k": "tuple", "ts": [STR, {"k": "tuple", "ts": [{"k": "u8"}, {"k": "u8"}]}, U64, {"k": "seq", "t": U64}]},
}


def impl_sources(code, header_res, what):
    out = []
    for hr in header_res:
        ms = list(re.finditer(r"\bimpl\b[^{;]*?" + hr + r"[^{;]*\{", code))
        if not ms: raise TranslateError(f"{what}: impl matching /{hr}/ not found")
        for m in ms:
            j = match_brace(code, m.end() - 1)
            out.append(code[m.start():j + 1])
    return "\n".join(out)


def fn_sources(code, names, what):
    out = []
    for n in names:
        ms = list(re.finditer(r"((?:#\[[^\]]*\]\s*)*)(?:pub(?:\([^)]*\))?\s+)?fn\s+" + n + r"\b", code))
        if not ms: raise TranslateError(f"{what}: fn {n} not found")
        for m in ms:
            i = code.index("{", code.index(")", m.end()))
            # the body starts at the first '{' after the signature's where clause
            depth, k = 0, m.end()
            while k < len(code):
                if code[k] in "(<[": depth += 1
                elif code[k] in ")>]" and not (code[k] == ">" and code[k - 1] == "-"): depth -= 1
                elif code[k] == "{" and depth <= 0: break
                k += 1
            j = match_brace(code, k)
            out.append(code[m.start():j + 1])
    return "\n".join(out)


def derive_types(repin):
    """-> (Shapes, digests) for Rules and the globals Struct"""
    defs, customs = rt.build_index()
    sh = rt.Shapes(defs, customs, {k: v[0] for k, v in CUSTOM_TYPES.items()}, {k: v[0] for k, v in CUSTOM_FNS.items()}, EXTERNAL)
    root = sh.shape(("path", "Rules", []), "lib/src/compiler/rules.rs")
    glob = sh.shape(("path", "Struct", []), "lib/src/types/structure.rs")
    digests = {}
    for name in sorted(sh.used_custom):
        _, f, hdrs = CUSTOM_TYPES[name]
        digests[name] = rt.norm_digest(impl_sources(strip_comments(src(f)), hdrs, name))
    for key in sorted(sh.used_custom_fns):
        _, f = CUSTOM_FNS[key]
        digests["+".join(key)] = rt.norm_digest(fn_sources(strip_comments(src(f)), key, "+".join(key)))
    # every type with a hand-written impl that is reachable must be registered (checked in Shapes.shape);
    # registered ones that are no longer used are reported too
    for name in CUSTOM_TYPES:
        if name not in sh.used_custom: raise TranslateError(f"custom shape {name} is registered but no longer reachable from Rules")
    if repin:
        with open(PINS_FILE, "w") as f: json.dump(digests, f, indent=1, sort_keys=True)
        print("pins written:", digests)
    try:
        pins = json.load(open(PINS_FILE))
    except OSError:
        raise TranslateError("translate/codec_pins.json missing: run `python3 translate/gen_codec.py --repin` after reviewing CUSTOM_TYPES")
    for k, v in digests.items():
        if pins.get(k) != v:
            raise TranslateError(f"the hand-written serde code of {k} changed (digest {v}, pinned {pins.get(k)}): review its wire shape in "
                                 f"translate/gen_codec.py (CUSTOM_TYPES / CUSTOM_FNS) and re-pin with `python3 translate/gen_codec.py --repin`")
    return sh, root, glob, digests


def write_types(sh, root, glob, digests):
    ids = sorted(sh.named)
    def ref(n): return f"(R N_{n})"
    arms = "\n".join(f"    | N_{n} => {rt.coq_shape(sh.named[n], ref)}" for n in ids)
    where = "\n".join(f"     {n} : {sh.info.get(n, '?')}" for n in ids)
    pins = "\n".join(f"     {k} = {v}" for k, v in sorted(digests.items()))
    text = f"""(* GENERATED by translate/gen_codec.py (rust_types.py) from the struct/enum definitions reachable
   from `struct Rules` and from the globals `Struct` -- do not edit; regenerated on every check.

   Named types (definition file):
{where}

   Hand-written serde impls, shapes stated in gen_codec.py and pinned by source digest:
{pins} *)
From Coq Require Import List NArith.
From YV Require Import Codec.Reader Codec.Varint Codec.Universe.
Import ListNotations.

Inductive tyname := {" | ".join("N_" + n for n in ids)}.

(* every reference to a named type is unfolded on demand (TDelay) and costs one unit of fuel;
   recursive types (Struct -> StructField -> TypeValue -> Struct ...) are cut at the fuel bound,
   where nothing decodes *)
Fixpoint named (fuel : nat) (n : tyname) : ty :=
  match fuel with
  | O => TEnum []
  | S f =>
    let R := fun m : tyname => TDelay (fun _ => named f m) in
    match n with
{arms}
    end
  end.

Definition gen_fuel : nat := 200.
Definition gen_rules_ty : ty := named gen_fuel N_Rules.
Definition gen_globals_ty : ty := named gen_fuel N_Struct.
"""
    write_if_changed("RulesTyGen.v", text)
    js = {"root": "Rules", "globals": "Struct", "types": {n: sh.named[n] for n in ids}}
    write_if_changed("rules_ty.json", json.dumps(js, indent=1, sort_keys=True) + "\n")

INT_WIDTH = {"u8": 1, "u16": 2, "u32": 4, "u64": 8, "i32": 4, "i64": 8}


def rust_bytes_literal(lit):
    """b"..." contents -> list of ints"""
    out, i = [], 0
    simple = {"0": 0, "n": 10, "r": 13, "t": 9, "\\": 92, '"': 34, "'": 39}
    while i < len(lit):
        c = lit[i]
        if c == "\\":
            n = lit[i + 1]
            if n == "x":
                out.append(int(lit[i + 2:i + 4], 16)); i += 4
            elif n in simple:
                out.append(simple[n]); i += 2
            else:
                raise TranslateError(f"MAGIC: unknown escape \\{n}")
        else:
            if ord(c) > 127:
                raise TranslateError("MAGIC: non-ASCII character in byte string")
            out.append(ord(c)); i += 1
    return out


def config_desc(expr):
    """bincode config expression -> (endian, intenc, limit) after applying the builder calls"""
    e = re.sub(r"\s+", "", expr)
    m = re.match(r"bincode::config::(standard|legacy)\(\)((?:\.[a-z_]+\((?:<[^>]*>)?\))*)$", e)
    if not m:
        raise TranslateError(f"unrecognised bincode config expression: {expr!r}")
    endian, intenc, limit = ("LE", "Varint", "NoLimit") if m.group(1) == "standard" else ("LE", "Fixint", "NoLimit")
    for call in re.findall(r"\.([a-z_]+)\(", m.group(2)):
        if call == "with_variable_int_encoding": intenc = "Varint"
        elif call == "with_fixed_int_encoding": intenc = "Fixint"
        elif call == "with_little_endian": endian = "LE"
        elif call == "with_big_endian": endian = "BE"
        elif call == "with_no_limit": limit = "NoLimit"
        elif call == "with_limit": limit = "Limit"
        else:
            raise TranslateError(f"unknown bincode config builder call {call}")
    return endian, intenc, limit


def coq_cfg(c):
    return f"(mkCfg {c[0]} {c[1]} {'false' if c[2] == 'NoLimit' else 'true'})"


def bincode_call(body, fn_re, what):
    m = re.search(r"bincode::serde::(" + fn_re + r")\s*\(", body)
    if not m:
        raise TranslateError(f"{what}: bincode::serde call not found")
    j = match_brace(body, m.end() - 1, "(", ")")
    args = body[m.end():j]
    # last top-level argument = the config
    depth, last = 0, 0
    for i, ch in enumerate(args):
        if ch in "([{<": depth += 1
        elif ch in ")]}>": depth -= 1
        elif ch == "," and depth == 0 and args[i + 1:].strip():
            last = i + 1
    cfg = args[last:].strip().rstrip(",").strip()
    return m.group(1), config_desc(cfg), m.start()


SERDE_FIELD_ITEMS = {"skip": "FSkipped", "serialize_with": "FCustom", "deserialize_with": "FCustom"}


def struct_fields(s, name):
    """[(field, kind, type, ser_fn, de_fn)] of `struct name`, in declaration (= wire) order.
    Any attribute on the struct or on a field that is not a doc comment, a derive containing
    Serialize+Deserialize, or one of the serde field attributes understood here (skip,
    serialize_with/deserialize_with) is an error: it could change the wire format."""
    m = re.compile(r"((?:#\[[^\]]*\]\s*)*)pub(?:\([^)]*\))?\s+struct\s+" + name + r"\s*\{", re.S).search(strip_comments(s))
    if not m:
        raise TranslateError(f"struct {name} not found")
    code = strip_comments(s)
    cattrs = [re.sub(r"\s+", "", a) for a in re.findall(r"#\[(.*?)\]", m.group(1), re.S)]
    derive = [a for a in cattrs if a.startswith("derive(")]
    if not derive or not all(any(re.search(r"\b" + t + r"\b", d) for d in derive) for t in ("Serialize", "Deserialize")):
        raise TranslateError(f"struct {name}: derive(Serialize, Deserialize) not found")
    for a in cattrs:
        if not a.startswith("derive("):
            raise TranslateError(f"struct {name}: unexpected container attribute #[{a}]")
    j = match_brace(code, m.end() - 1)
    body = code[m.end():j]
    depth, start, items = 0, 0, []
    for i, ch in enumerate(body):
        if ch in "([{<": depth += 1
        elif ch in ")]}>":
            if ch == ">" and body[i - 1] == "-": continue
            depth -= 1
        elif ch == "," and depth == 0:
            items.append(body[start:i]); start = i + 1
    items.append(body[start:])
    fields = []
    for it in items:
        it = it.strip()
        if not it: continue
        attrs = []
        while it.startswith("#"):
            k = it.index("[")
            e = match_brace(it, k, "[", "]")
            attrs.append(re.sub(r"\s+", "", it[k + 1:e])); it = it[e + 1:].strip()
        fm = re.match(r"(?:pub(?:\([^)]*\))?\s+)?([a-z_][a-z_0-9]*)\s*:\s*(.+)$", it, re.S)
        if not fm:
            raise TranslateError(f"struct {name}: cannot parse field {it[:60]!r}")
        kind, ser_fn, de_fn = "FPlain", "", ""
        for a in attrs:
            sm = re.match(r"serde\((.*)\)$", a)
            if not sm:
                raise TranslateError(f"struct {name}.{fm.group(1)}: unexpected attribute #[{a}]")
            for item in [x for x in sm.group(1).split(",") if x]:
                key, _, val = item.partition("=")
                if key not in SERDE_FIELD_ITEMS:
                    raise TranslateError(f"struct {name}.{fm.group(1)}: unexpected serde attribute {item!r}")
                if key == "skip" and val:
                    raise TranslateError(f"struct {name}.{fm.group(1)}: unexpected serde attribute {item!r}")
                if SERDE_FIELD_ITEMS[key] == "FSkipped": kind = "FSkipped"
                elif kind != "FSkipped": kind = "FCustom"
                if key == "serialize_with": ser_fn = val.strip('"')
                if key == "deserialize_with": de_fn = val.strip('"')
        if kind == "FCustom" and not (ser_fn and de_fn):
            raise TranslateError(f"struct {name}.{fm.group(1)}: serialize_with and deserialize_with must come together")
        fields.append((fm.group(1), kind, re.sub(r"\s+", " ", fm.group(2).strip()), ser_fn, de_fn))
    if not fields:
        raise TranslateError(f"struct {name}: no fields")
    return fields


CMP = {"<": "CLt", "<=": "CLe", ">": "CGt", ">=": "CGe", "==": "CEq", "!=": "CNe"}


def main(repin=False):
    sh, root, glob, digests = derive_types(repin)
    write_types(sh, root, glob, digests)
    rules = src("lib/src/compiler/rules.rs")
    comp = src("lib/src/compiler/mod.rs")
    code = strip_comments(rules)

    m = re.search(r'const\s+MAGIC\s*:\s*&\[u8\]\s*=\s*b"((?:[^"\\]|\\.)*)"\s*;', code)
    if not m: raise TranslateError("const MAGIC: &[u8] = b\"...\" not found")
    magic = rust_bytes_literal(m.group(1))
    if not magic: raise TranslateError("MAGIC is empty")
    m = re.search(r"const\s+SERIALIZATION_VERSION\s*:\s*([a-z0-9]+)\s*=\s*([0-9_]+|0x[0-9a-fA-F_]+)\s*;", code)
    if not m: raise TranslateError("const SERIALIZATION_VERSION not found")
    vty, version = m.group(1), int(m.group(2).replace("_", ""), 0)
    if vty not in INT_WIDTH: raise TranslateError(f"SERIALIZATION_VERSION has unsupported type {vty}")

    impl = impl_block(code, r"impl\s+Rules\s*\{", "impl Rules")

    # ---- serialize_into
    ser = fn_body(impl, "serialize_into")
    layout = []
    ser_endian = None
    events = []
    for wm in re.finditer(r"writer\s*\.\s*write_all\s*\(\s*([^;]*?)\s*\)\s*\?\s*;", ser):
        events.append((wm.start(), "write", wm.group(1)))
    fn, ser_cfg, pos = bincode_call(ser, r"encode_into_std_write|encode_into_slice|encode_to_vec", "serialize_into")
    if fn != "encode_into_std_write":
        raise TranslateError(f"serialize_into: expected bincode::serde::encode_into_std_write, found {fn}")
    events.append((pos, "body", ""))
    for _, kind, arg in sorted(events):
        if kind == "body": layout.append("HBody"); continue
        a = re.sub(r"\s+", "", arg)
        if a == "MAGIC": layout.append("HMagic")
        else:
            vm = re.match(r"&SERIALIZATION_VERSION\.to_(le|be)_bytes\(\)$", a)
            if not vm: raise TranslateError(f"serialize_into: unrecognised write_all argument {arg!r}")
            ser_endian = vm.group(1).upper(); layout.append("HVersion")
    if ser_endian is None: raise TranslateError("serialize_into: the version is not written")
    # serialize() must delegate to serialize_into
    if not re.search(r"self\s*\.\s*serialize_into\s*\(", fn_body(impl, "serialize")):
        raise TranslateError("Rules::serialize does not call serialize_into")
    de_from = fn_body(impl, "deserialize_from")
    if not (re.search(r"read_to_end", de_from) and re.search(r"Self::deserialize\s*\(", de_from)):
        raise TranslateError("Rules::deserialize_from no longer reads everything and calls deserialize")

    # ---- deserialize
    de = fn_body(impl, "deserialize")
    m = re.search(r"let\s+version_offset\s*=\s*MAGIC\s*\.\s*len\s*\(\s*\)\s*;", de)
    if not m: raise TranslateError("deserialize: `let version_offset = MAGIC.len();` not found")
    m = re.search(r"let\s+data_offset\s*=\s*version_offset\s*\+\s*(?:std::mem::|core::mem::|mem::)?size_of::<\s*([a-z0-9]+)\s*>\(\)\s*;", de)
    if not m: raise TranslateError("deserialize: `let data_offset = version_offset + size_of::<T>();` not found")
    off_ty = m.group(1)
    m = re.search(r"if\s+bytes\s*\.\s*len\s*\(\)\s*(<=|<|>=|>)\s*data_offset\s*\|\|\s*&bytes\s*\[\s*0\s*\.\.\s*version_offset\s*\]\s*(!=|==)\s*MAGIC\s*\{\s*return\s+Err\s*\(\s*SerializationError::InvalidFormat\s*\)\s*;\s*\}", de)
    if not m: raise TranslateError("deserialize: the InvalidFormat condition has an unexpected shape")
    fmt_len_cmp, fmt_magic_cmp = CMP[m.group(1)], CMP[m.group(2)]
    fmt_pos = m.start()
    m = re.search(r"let\s+version\s*=\s*([a-z0-9]+)::from_(le|be)_bytes\s*\(\s*bytes\s*\[\s*version_offset\s*\.\.\s*data_offset\s*\]\s*\.\s*try_into\s*\(\)\s*\.\s*unwrap\s*\(\)\s*,?\s*\)\s*;", de)
    if not m: raise TranslateError("deserialize: `let version = T::from_xx_bytes(bytes[version_offset..data_offset]...)` not found")
    de_vty, de_endian = m.group(1), m.group(2).upper()
    if de_vty not in INT_WIDTH or off_ty not in INT_WIDTH: raise TranslateError("deserialize: unsupported version type")
    ver_pos = m.start()
    m = re.search(r"if\s+version\s*(!=|==|<|<=|>|>=)\s*SERIALIZATION_VERSION\s*\{\s*return\s+Err\s*\(\s*SerializationError::InvalidVersion\s*\{", de)
    if not m: raise TranslateError("deserialize: the InvalidVersion condition has an unexpected shape")
    ver_cmp = CMP[m.group(1)]
    chk_pos = m.start()
    fn, de_cfg, dec_pos = bincode_call(de, r"decode_from_slice|borrow_decode_from_slice|decode_from_std_read", "deserialize")
    if fn != "decode_from_slice":
        raise TranslateError(f"deserialize: expected bincode::serde::decode_from_slice, found {fn}")
    if not (fmt_pos < ver_pos < chk_pos < dec_pos):
        raise TranslateError("deserialize: header checks are no longer in the order format, version, decode")
    if not re.search(r"decode_from_slice\s*\(\s*&bytes\s*\[\s*data_offset\s*\.\.\s*\]", de):
        raise TranslateError("deserialize: the payload is no longer &bytes[data_offset..]")
    m = re.search(r"let\s*\(\s*mut\s+rules\s*,\s*([a-z_]+)\s*\)", de)
    if not m: raise TranslateError("deserialize: `let (mut rules, <len>)` not found")
    len_var = m.group(1)
    trailing_checked = bool(re.search(r"\b" + re.escape(len_var) + r"\b", de[m.end():])) if not len_var.startswith("_") else False
    # post-decode validation
    m = re.search(r"if\s+rules\s*\.\s*sub_patterns\s*\.\s*len\s*\(\)\s*(<=|<|>=|>)\s*max_sub_pattern_id\s*\.\s*0\s+as\s+usize\s*\{\s*return\s+Err\s*\(\s*SerializationError::InvalidFormat\s*\)", de)
    if not m: raise TranslateError("deserialize: the sub-pattern bound check has an unexpected shape")
    post_cmp = CMP[m.group(1)]
    if dec_pos > m.start(): raise TranslateError("deserialize: bound check before decoding")
    prof = bool(re.search(r"if\s+rules\s*\.\s*rules_profiling_enabled\s*!=\s*profiling_enabled\s*\{\s*return\s+Err", de))
    if not prof: raise TranslateError("deserialize: the rules-profiling mismatch check is gone")
    rebuild_wasm = bool(re.search(r"Module::from_binary", de))
    rebuild_teddy = bool(re.search(r"rules\s*\.\s*ac\s*\.\s*rebuild_teddy\s*\(", de))

    # ---- globals blob
    gl = fn_body(impl, "globals")
    _, gl_de_cfg, _ = bincode_call(gl, r"decode_from_slice", "Rules::globals")
    ccode = strip_comments(comp)
    m = re.search(r"let\s+serialized_globals\s*=\s*", ccode)
    if not m: raise TranslateError("Compiler::build: `let serialized_globals =` not found")
    _, gl_ser_cfg, _ = bincode_call(ccode[m.end():m.end() + 600], r"encode_to_vec", "Compiler::build globals")

    fields = struct_fields(rules, "Rules")
    nested = [("rule_info", struct_fields(rules, "RuleInfo")), ("pattern_info", struct_fields(rules, "PatternInfo")),
              ("sub_pattern_atom", struct_fields(rules, "SubPatternAtom")), ("filesize_bounds", struct_fields(rules, "FilesizeBounds")),
              ("atom", struct_fields(src("lib/src/compiler/atoms/mod.rs"), "Atom"))]

    def nlist(xs): return "[" + "; ".join(str(x) for x in xs) + "]%N"
    def flist(fs): return ";\n   ".join(f'("{n}"%string, {k})' for n, k, _, _, _ in fs)
    ftxt = flist(fields)
    fcomment = "\n".join(f"     {n} : {coq_comment_safe(t)}  [{k}]" for n, k, t, _, _ in fields)
    custom = "; ".join(f'("{n}"%string, "{a}"%string, "{b}"%string)' for n, k, _, a, b in fields if k == "FCustom")
    nested_txt = "\n".join(
        "(* struct %s:\n%s *)\nDefinition %s_fields : list (string * field_kind) :=\n  [%s].\n" % (
            nm, "\n".join(f"     {n} : {coq_comment_safe(t)}  [{k}]" for n, k, t, _, _ in fs), nm, flist(fs)) for nm, fs in nested)
    text = f"""(* GENERATED by translate/gen_codec.py from lib/src/compiler/rules.rs and
   lib/src/compiler/mod.rs -- do not edit; regenerated on every check. *)
From Coq Require Import List NArith String.
Import ListNotations.

Inductive endian := LE | BE.
Inductive intenc := Varint | Fixint.
Record bincfg := mkCfg {{ cfg_endian : endian; cfg_int : intenc; cfg_limit : bool }}.
Inductive cmp := CLt | CLe | CGt | CGe | CEq | CNe.
Inductive hdr_item := HMagic | HVersion | HBody.
Inductive field_kind := FPlain | FSkipped | FCustom.

(* const MAGIC / const SERIALIZATION_VERSION : {vty} *)
Definition magic : list N := {nlist(magic)}.
Definition version : N := {version}%N.
Definition version_const_width : nat := {INT_WIDTH[vty]}.

(* Rules::serialize_into: order of the writes, byte order of the version, bincode config *)
Definition ser_layout : list hdr_item := [{"; ".join(layout)}].
Definition ser_version_endian : endian := {ser_endian}.
Definition ser_body_cfg : bincfg := {coq_cfg(ser_cfg)}.

(* Rules::deserialize *)
(* data_offset = version_offset + size_of::<{off_ty}>(), version_offset = MAGIC.len() *)
Definition de_offset_width : nat := {INT_WIDTH[off_ty]}.
(* if bytes.len() <cmp> data_offset || &bytes[0..version_offset] <cmp> MAGIC -> InvalidFormat *)
Definition de_format_len_cmp : cmp := {fmt_len_cmp}.
Definition de_format_magic_cmp : cmp := {fmt_magic_cmp}.
(* {de_vty}::from_{de_endian.lower()}_bytes(bytes[version_offset..data_offset]) *)
Definition de_version_width : nat := {INT_WIDTH[de_vty]}.
Definition de_version_endian : endian := {de_endian}.
(* if version <cmp> SERIALIZATION_VERSION -> InvalidVersion *)
Definition de_version_cmp : cmp := {ver_cmp}.
Definition de_body_cfg : bincfg := {coq_cfg(de_cfg)}.
(* is the number of bytes bincode consumed compared with the input length? *)
Definition de_trailing_checked : bool := {str(trailing_checked).lower()}.
(* if rules.sub_patterns.len() <cmp> max_sub_pattern_id -> InvalidFormat *)
Definition de_subpattern_bound_cmp : cmp := {post_cmp}.
Definition de_rebuilds_wasm : bool := {str(rebuild_wasm).lower()}.
Definition de_rebuilds_teddy : bool := {str(rebuild_teddy).lower()}.

(* the globals blob: Compiler::build (encode) / Rules::globals (decode) *)
Definition globals_ser_cfg : bincfg := {coq_cfg(gl_ser_cfg)}.
Definition globals_de_cfg : bincfg := {coq_cfg(gl_de_cfg)}.

(* struct Rules, in declaration (= wire) order:
{fcomment} *)
Definition rules_fields : list (string * field_kind) :=
  [{ftxt}].
(* fields with serialize_with / deserialize_with: (field, serializer, deserializer) *)
Definition rules_custom : list (string * string * string) := [{custom}].

(* structs nested in Rules (field order = wire order) *)
{nested_txt}"""
    write_if_changed("CodecGen.v", text)


if __name__ == "__main__":
    main(repin="--repin" in sys.argv)
