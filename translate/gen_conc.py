#!/usr/bin/env python3
"""Gen/ConcGen.v from lib/src/scanner/context.rs, lib/src/scanner/mod.rs, lib/src/wasm/mod.rs.

Constants and formulas of the process-wide timeout clock that the interleaving
model (Conc/Interleave.v) uses:

  default_scan_timeout    `const DEFAULT_SCAN_TIMEOUT: u64 = N;`
  timeout_secs            `scan_timeout.map_or(DEFAULT, |t| cmp::min(ceil(t), DEFAULT))`
  counter_poll_fires      the comparison of the two polls in ac_search_loop
                          (`HEARTBEAT_COUNTER.load(..) >= self.deadline`)
  heartbeat_period_secs   `thread::sleep(Duration::from_secs(N))` of the heartbeat loop
  shared_writes           EVERY call site (all of lib/src except the cfg(yara_x_verif) hook files
                          verif_*.rs and the runtime abstraction lib/src/wasm/runtime/, which only
                          defines/delegates these methods) of `increment_epoch`, of a write to
                          HEARTBEAT_COUNTER (fetch_*/store/swap/compare_exchange*) and of
                          `set_epoch_deadline`, with what it writes (engine epoch, counter, the
                          caller's own store, something else) and where (inside the heartbeat
                          thread's loop, or scanner-side code); `clock_single_writer` is computed
                          from the table IN COQ: engine-wide writes only in the heartbeat loop,
                          scanner-side code only writes its own store's deadline.
checked shapes (TranslateError when absent):
  * `self.deadline = HEARTBEAT_COUNTER.load(Ordering::Relaxed) + timeout_secs;`
    and `wasm_store.set_epoch_deadline(timeout_secs);` (both relative to the
    shared clock, both stored in the scanner's own context / store);
  * the heartbeat thread is spawned inside `INIT_HEARTBEAT.call_once` and only
    `if self.scan_timeout.is_some()`; its loop increments the engine epoch and
    then HEARTBEAT_COUNTER by one;
  * `static HEARTBEAT_COUNTER: AtomicU64 = AtomicU64::new(0)`, `static INIT_HEARTBEAT: Once`;
  * `static mut ENGINE: OnceLock<Engine>` initialised by `ENGINE.get_or_init(..)` in get_engine.
"""
import re
from tlib import *


def need(cond, what):
    if not cond:
        raise TranslateError("interleaving model: shape not found: " + what)


def main():
    ctx = strip_comments(src("lib/src/scanner/context.rs"))
    smod = strip_comments(src("lib/src/scanner/mod.rs"))
    wasm = strip_comments(src("lib/src/wasm/mod.rs"))

    m = re.search(r"const\s+DEFAULT_SCAN_TIMEOUT\s*:\s*u64\s*=\s*([0-9_]+)\s*;", ctx)
    need(m, "const DEFAULT_SCAN_TIMEOUT: u64 = N;")
    default = int(m.group(1).replace("_", ""))
    need(default >= 1, "DEFAULT_SCAN_TIMEOUT >= 1")

    need(re.search(r"let\s+timeout_secs\s*=\s*self\.scan_timeout\.map_or\(\s*Self::DEFAULT_SCAN_TIMEOUT\s*,\s*\|t\|\s*\{?\s*cmp::min\(\s*t\.as_secs_f32\(\)\.ceil\(\)\s+as\s+u64\s*,\s*Self::DEFAULT_SCAN_TIMEOUT\s*,?\s*\)\s*\}?\s*,?\s*\)\s*;", ctx),
         "let timeout_secs = self.scan_timeout.map_or(DEFAULT, |t| cmp::min(t.as_secs_f32().ceil() as u64, DEFAULT));")
    need(re.search(r"self\.deadline\s*=\s*HEARTBEAT_COUNTER\.load\(Ordering::Relaxed\)\s*\+\s*timeout_secs\s*;", ctx),
         "self.deadline = HEARTBEAT_COUNTER.load(Ordering::Relaxed) + timeout_secs;")
    need(re.search(r"wasm_store\.set_epoch_deadline\(timeout_secs\)\s*;", ctx), "wasm_store.set_epoch_deadline(timeout_secs);")
    need(re.search(r"wasm_store\.epoch_deadline_callback\(\|_\|\s*Err\(ScanError::Timeout\.into\(\)\)\)\s*;", ctx),
         "epoch_deadline_callback(|_| Err(ScanError::Timeout.into()))")

    hm = re.search(r"if\s+self\.scan_timeout\.is_some\(\)\s*\{\s*INIT_HEARTBEAT\.call_once\(\|\|\s*\{\s*thread::spawn\(\|\|\s*\{\s*loop\s*\{", ctx)
    need(hm, "if self.scan_timeout.is_some() { INIT_HEARTBEAT.call_once(|| { thread::spawn(|| { loop {")
    j = match_brace(ctx, hm.end() - 1)
    loop = ctx[hm.end():j]
    sm = re.search(r"thread::sleep\(Duration::from_secs\((\d+)\)\)\s*;", loop)
    need(sm, "heartbeat: thread::sleep(Duration::from_secs(N));")
    period = int(sm.group(1))
    need(period >= 1, "heartbeat period >= 1 s")
    pe = loop.find("wasm::get_engine().increment_epoch();")
    pc = loop.find("HEARTBEAT_COUNTER")
    need(0 <= pe < pc, "heartbeat: increment_epoch() before the HEARTBEAT_COUNTER update")
    need(re.search(r"HEARTBEAT_COUNTER\s*\.fetch_update\(\s*Ordering::SeqCst\s*,\s*Ordering::SeqCst\s*,\s*\|x\|\s*Some\(x\s*\+\s*1\)\s*,?\s*\)", loop),
         "heartbeat: HEARTBEAT_COUNTER.fetch_update(.., |x| Some(x + 1))")

    polls = re.findall(r"HEARTBEAT_COUNTER\.load\(Ordering::Relaxed\)\s*(>=|>)\s*self\.deadline", ctx)
    need(len(polls) == 2 and len(set(polls)) == 1, "two polls `HEARTBEAT_COUNTER.load(Ordering::Relaxed) >= self.deadline` in ac_search_loop")
    fires = "N.leb deadline counter" if polls[0] == ">=" else "N.ltb deadline counter"

    need(re.search(r"static\s+HEARTBEAT_COUNTER\s*:\s*AtomicU64\s*=\s*AtomicU64::new\(0\)\s*;", smod), "static HEARTBEAT_COUNTER: AtomicU64 = AtomicU64::new(0);")
    need(re.search(r"static\s+INIT_HEARTBEAT\s*:\s*Once\s*=\s*Once::new\(\)\s*;", smod), "static INIT_HEARTBEAT: Once = Once::new();")
    need(re.search(r"static\s+mut\s+ENGINE\s*:\s*OnceLock<Engine>\s*=\s*OnceLock::new\(\)\s*;", wasm), "static mut ENGINE: OnceLock<Engine> = OnceLock::new();")
    ge = fn_body(wasm, "get_engine")
    need(re.search(r"ENGINE\.get_or_init\(\|\|\s*Engine::new\(&CONFIG\)\.unwrap\(\)\)", ge), "get_engine: ENGINE.get_or_init(|| Engine::new(&CONFIG).unwrap())")
    need(re.search(r"config\.epoch_interruption\(true\)\s*;", wasm), "config.epoch_interruption(true);")

    # ---- every write to the shared clock / to a store's epoch deadline
    import os, glob
    lib = os.path.join(REPO, "lib", "src")
    hb_file = os.path.join(lib, "scanner", "context.rs")
    rows = []
    pat = re.compile(r"(?<![A-Za-z_0-9])(increment_epoch|set_epoch_deadline)\s*\(|HEARTBEAT_COUNTER\s*\.\s*(fetch_[a-z_]+|store|swap|compare_exchange[a-z_]*)\s*\(")
    for path in sorted(glob.glob(os.path.join(lib, "**", "*.rs"), recursive=True)):
        rel = os.path.relpath(path, lib)
        if os.path.basename(rel).startswith("verif_") or rel.startswith(os.path.join("wasm", "runtime") + os.sep):
            continue
        try:
            raw = open(path, encoding="utf-8").read()
        except OSError as e:
            raise TranslateError(f"cannot read {rel}: {e}")
        if not re.search(r"increment_epoch|set_epoch_deadline|HEARTBEAT_COUNTER", raw):
            continue
        txt = strip_comments(raw)
        # span of the heartbeat loop in this file (only scanner/context.rs has one)
        hb_span = None
        hm2 = re.search(r"INIT_HEARTBEAT\.call_once\(\|\|\s*\{\s*thread::spawn\(\|\|\s*\{\s*loop\s*\{", txt)
        if hm2:
            hb_span = (hm2.end() - 1, match_brace(txt, hm2.end() - 1))
        for m in pat.finditer(txt):
            # skip definitions `fn increment_epoch(` / `fn set_epoch_deadline(`
            if re.search(r"fn\s+$", txt[max(0, m.start() - 8):m.start()]):
                continue
            fns = re.findall(r"\bfn\s+([A-Za-z_0-9]+)", txt[:m.start()])
            fn = fns[-1] if fns else "?"
            where = "HeartbeatLoop" if hb_span and hb_span[0] < m.start() < hb_span[1] else "ScannerSide"
            if m.group(1) == "increment_epoch":
                target = "EngineEpoch"
            elif m.group(1) == "set_epoch_deadline":
                # receiver expression: own store = the ScanContext's store / the Caller's store
                line_start = txt.rfind(";", 0, m.start()) + 1
                recv = re.sub(r"\s+", "", txt[max(line_start, txt.rfind("{", 0, m.start()) + 1):m.start()])
                own = recv in ("wasm_store.", "caller.as_context_mut().", "self.wasm_store_mut().", "store.")
                if recv == "wasm_store.":
                    own = re.search(r"let\s+wasm_store\s*=\s*self\.wasm_store_mut\(\)\s*;", txt[:m.start()]) is not None
                target = "OwnStoreDeadline" if own else "OtherStoreDeadline"
            else:
                target = "HeartbeatCounter"
            rows.append((f"{rel}:{fn}", target, where))
    need(any(t == "EngineEpoch" and w == "HeartbeatLoop" for _, t, w in rows), "the heartbeat loop increments the engine epoch")
    need(any(t == "HeartbeatCounter" and w == "HeartbeatLoop" for _, t, w in rows), "the heartbeat loop increments HEARTBEAT_COUNTER")
    need(any(t == "OwnStoreDeadline" for _, t, w in rows), "a scanner sets its own store's epoch deadline")
    table = ";\n   ".join(f'("{n}", {t}, {w})' for n, t, w in rows)

    text = f"""(* GENERATED by translate/gen_conc.py from lib/src/scanner/context.rs, lib/src/scanner/mod.rs
   and lib/src/wasm/mod.rs -- do not edit; regenerated on every check. *)
From Coq Require Import NArith List String Bool.
Import ListNotations.
Local Open Scope N_scope.

(* const DEFAULT_SCAN_TIMEOUT: u64 *)
Definition default_scan_timeout : N := {default}.

(* let timeout_secs = self.scan_timeout.map_or(DEFAULT, |t| cmp::min(ceil(t) as u64, DEFAULT));
   the argument is the user's timeout already rounded up to whole seconds *)
Definition timeout_secs (user : option N) : N :=
  match user with None => default_scan_timeout | Some t => N.min t default_scan_timeout end.

(* the polls of ac_search_loop: HEARTBEAT_COUNTER.load(..) {polls[0]} self.deadline *)
Definition counter_poll_fires (counter deadline : N) : bool := {fires}.

(* the emitted code is interrupted when the engine epoch has reached the store's
   deadline (wasmtime epoch interruption: current epoch >= deadline) *)
Definition epoch_poll_fires (epoch deadline : N) : bool := N.leb deadline epoch.

(* thread::sleep(Duration::from_secs(N)) of the heartbeat loop *)
Definition heartbeat_period_secs : N := {period}.

(* every write to the engine epoch / HEARTBEAT_COUNTER / a store's epoch deadline in
   lib/src (hook files and the runtime abstraction layer excluded): "file:function",
   what is written, where *)
Inductive wtarget := EngineEpoch | HeartbeatCounter | OwnStoreDeadline | OtherStoreDeadline.
Inductive wwhere := HeartbeatLoop | ScannerSide.
Definition shared_writes : list (string * wtarget * wwhere) :=
  [{table}]%string.

(* engine-wide writes occur only in the heartbeat thread's loop; scanner-side code
   writes only the epoch deadline of its own store *)
Definition write_ok (w : string * wtarget * wwhere) : bool :=
  match w with
  | (_, EngineEpoch, HeartbeatLoop) | (_, HeartbeatCounter, HeartbeatLoop) => true
  | (_, OwnStoreDeadline, ScannerSide) => true
  | _ => false
  end.
Definition clock_single_writer : bool := forallb write_ok shared_writes.
"""
    write_if_changed("ConcGen.v", text)


if __name__ == "__main__":
    main()
