#!/usr/bin/env python3
"""Gen/EmitFacts.v (property C02): the facts about lib/src/compiler/emit.rs (and the constants
it uses from wasm/mod.rs, compiler/context.rs) that the model Cond/Emit.v is built from.
Cond/Emit.v USES these definitions, so that a change of the source changes the emitted code of
the model and the proofs of Cond/EmitProofs.v / the K on run(emit ir) are re-checked against it.

* emit_shift_op!: the comparison and the constant of the guard in front of the shift, and the
  value pushed when the guard fails;
* emit_div / emit_mod: throw_undef_if_zero in front of i64.div_s / i64.rem_s, the divisor == -1
  branch, and that no other i64.div_s / i64.rem_s is emitted;
* load_var / set_var_undef: the address of the flag word ((index / A) * B) and the bit
  (1 << (index % C)); Var::mem_size; MAX_VARS, VARS_STACK_START;
* every pattern operation starts with emit_lazy_call_to_search_for_patterns, which emits the check
  unconditionally;
* emit_for: what the none / all / any arms do in their then / else branch (leave the loop with a
  value, or repeat and then leave with a value) and the three comparisons of the <expr> arm;
* VarStack frame sizes.
"""
import re
from tlib import *

BINOPS = {"I64LtS", "I64LeS", "I64GtS", "I64GeS", "I64Eq", "I64Ne"}


def macro_body(s, name):
    m = re.search(r"macro_rules!\s+" + name + r"\s*\{", s)
    if not m:
        raise TranslateError(f"macro {name} not found")
    j = match_brace(s, m.end() - 1)
    return s[m.end():j]


def const_i32(s, name):
    m = re.search(r"const\s+" + name + r"\s*:\s*i32\s*=\s*([^;]+);", s)
    if not m:
        raise TranslateError(f"const {name} not found")
    return m.group(1).strip()


def closure_bodies(call_text):
    """bodies of the `|x| { .. }` closures appearing in call_text, in order"""
    out = []
    for m in re.finditer(r"\|\s*_?[a-z_]*\s*\|\s*\{", call_text):
        j = match_brace(call_text, m.end() - 1)
        out.append(call_text[m.end():j])
    # drop closures nested inside earlier ones
    res, end = [], -1
    for m in re.finditer(r"\|\s*_?[a-z_]*\s*\|\s*\{", call_text):
        if m.start() < end:
            continue
        j = match_brace(call_text, m.end() - 1)
        res.append(call_text[m.end():j]); end = j
    return res


def arm(text, what):
    """(repeats?, value) of one branch of a none/all/any arm"""
    rep = bool(re.search(r"incr_i_and_repeat\(", text))
    m = re.search(r"\.i32_const\((\d+)\)\s*;\s*[a-z_]+\.br\(loop_end\)", text)
    if not m:
        raise TranslateError(f"emit_for {what}: `i32_const(v); br(loop_end)` not found")
    if rep and text.index("incr_i_and_repeat(") > m.start():
        raise TranslateError(f"emit_for {what}: the value is pushed before incr_i_and_repeat")
    return rep, int(m.group(1))


def main():
    emit = strip_comments(src("lib/src/compiler/emit.rs"))
    wasm = strip_comments(src("lib/src/wasm/mod.rs"))
    cctx = strip_comments(src("lib/src/compiler/context.rs"))

    # ---- shift guard
    sh = macro_body(emit, "emit_shift_op")
    m = re.search(r"\$instr\.i64_const\((\d+)\)\s*;\s*\$instr\.binop\(BinaryOp::(\w+)\)\s*;\s*\$instr\.if_else\(", sh)
    if not m or m.group(2) not in BINOPS:
        raise TranslateError("emit_shift_op!: guard `i64_const(N); binop(cmp); if_else(` not found")
    shift_const, shift_cmp = int(m.group(1)), m.group(2)
    rest = sh[m.end():]
    cl = closure_bodies(rest)
    if len(cl) < 2 or "BinaryOp::$int_op" not in cl[0]:
        raise TranslateError("emit_shift_op!: then-branch does not perform the shift")
    me = re.search(r"i64_const\((-?\d+)\)", cl[1])
    if not me:
        raise TranslateError("emit_shift_op!: else-branch constant not found")
    shift_else = int(me.group(1))
    # the guard compares the right operand: tmp_b is loaded last
    if not re.search(r"local_get\(\$ctx\.wasm_symbols\.i64_tmp_b\)\s*;\s*\$instr\.i64_const", sh):
        raise TranslateError("emit_shift_op!: the guard no longer tests the right operand")

    # ---- div / mod
    div = fn_body(emit, "emit_div")
    mod = fn_body(emit, "emit_mod")
    div_zero = bool(re.search(r"throw_undef_if_zero\(ctx,\s*instr\)\s*;", div)) and div.index("throw_undef_if_zero") < div.index("I64DivS")
    mod_zero = bool(re.search(r"throw_undef_if_zero\(ctx,\s*instr\)\s*;\s*instr\.binop\(BinaryOp::I64RemS\)", mod))
    div_m1 = bool(re.search(r"i64_const\(-1\)\s*;\s*instr\.binop\(BinaryOp::I64Eq\)\s*;\s*instr\.if_else\(", div)) and \
             bool(re.search(r"i64_const\(0\)\s*;\s*then\.local_get\(lhs\)\s*;\s*then\.binop\(BinaryOp::I64Sub\)", div))
    if len(re.findall(r"BinaryOp::I64DivS", emit)) != 1 or len(re.findall(r"BinaryOp::I64RemS", emit)) != 1:
        raise TranslateError("i64.div_s / i64.rem_s emitted somewhere else than emit_div / emit_mod")
    tz = fn_body(emit, "throw_undef_if_zero")
    if not re.search(r"UnaryOp::I64Eqz", tz) or "throw_undef(ctx, then)" not in re.sub(r"\s+", " ", tz):
        raise TranslateError("throw_undef_if_zero: shape changed")

    # ---- variables
    lv = fn_body(emit, "load_var")
    sv = fn_body(emit, "set_var_undef")
    addr_re = r"var\.index\(\)\.saturating_div\((\d+)\)\s*\*\s*(\d+)"
    a1, a2 = re.findall(addr_re, lv), re.findall(addr_re, sv)
    if len(a1) != 1 or len(a2) != 2 or len(set(a1 + a2)) != 1:
        raise TranslateError("load_var / set_var_undef: flag word address `index.saturating_div(A) * B` not found (or not the same everywhere)")
    flag_div, flag_mul = int(a1[0][0]), int(a1[0][1])
    b1 = re.findall(r"1(?:i64)?\s*<<\s*var\.index\(\)\.wrapping_rem\((\d+)\)", lv + sv)
    if len(b1) != 2 or len(set(b1)) != 1:
        raise TranslateError("load_var / set_var_undef: flag bit `1 << index.wrapping_rem(C)` not found")
    flag_rem = int(b1[0])
    if not re.search(r"I64And\)\s*;\s*instr\.unop\(UnaryOp::I64Eqz\)\s*;\s*instr\.if_else\(None,\s*\|_then\|\s*\{\s*\}\s*,\s*\|_else\|\s*throw_undef\(ctx,\s*_else\)\)", lv):
        raise TranslateError("load_var: `(word & bit) == 0` test followed by throw_undef in the else branch not found")
    ms = re.search(r"fn\s+mem_size\(\)\s*->\s*i32\s*\{\s*size_of::<(\w+)>\(\)\s*as\s*i32\s*\}", cctx)
    if not ms or ms.group(1) not in ("i64", "u64", "f64"):
        raise TranslateError("Var::mem_size: not size_of of a 64-bit type")
    max_vars = const_i32(wasm, "MAX_VARS")
    if not re.fullmatch(r"\d+", max_vars):
        raise TranslateError("MAX_VARS is not a literal")
    vss = const_i32(wasm, "VARS_STACK_START")
    mv = re.fullmatch(r"MAX_VARS\s*/\s*(\d+)", vss)
    if not mv:
        raise TranslateError(f"VARS_STACK_START = {vss}: expected MAX_VARS / k")

    # ---- memory layout used by the field lookups and the matching-rules bitmap
    vse = const_i32(wasm, "VARS_STACK_END")
    if not re.fullmatch(r"VARS_STACK_START\s*\+\s*MAX_VARS\s*\*\s*8", vse):
        raise TranslateError(f"VARS_STACK_END = {vse}: expected VARS_STACK_START + MAX_VARS * 8")
    if const_i32(wasm, "LOOKUP_INDEXES_START") != "VARS_STACK_END":
        raise TranslateError("LOOKUP_INDEXES_START is not VARS_STACK_END")
    lie = const_i32(wasm, "LOOKUP_INDEXES_END")
    ml = re.fullmatch(r"LOOKUP_INDEXES_START\s*\+\s*(\d+)", lie)
    if not ml:
        raise TranslateError(f"LOOKUP_INDEXES_END = {lie}: expected LOOKUP_INDEXES_START + k")
    if const_i32(wasm, "MATCHING_RULES_BITMAP_BASE") != "LOOKUP_INDEXES_END":
        raise TranslateError("MATCHING_RULES_BITMAP_BASE is not LOOKUP_INDEXES_END")

    # ---- the pattern-search check
    lazy = fn_body(emit, "emit_lazy_call_to_search_for_patterns")
    unconditional = bool(re.match(r"\s*instr\.global_get\(ctx\.wasm_symbols\.pattern_search_done\)\s*;\s*instr\.if_else\(", lazy))
    pat_fns = ["emit_pattern_match", "emit_pattern_count", "emit_pattern_offset", "emit_pattern_length", "emit_of_pattern_set"]
    before_each = all(re.match(r"\s*emit_lazy_call_to_search_for_patterns\(ctx,\s*instr\)\s*;", fn_body(emit, f)) for f in pat_fns)

    # ---- emit_for
    ef = fn_body(emit, "emit_for")
    arms = {}
    for q in ("None", "All", "Any"):
        m = re.search(r"Quantifier::" + q + r"\s*=>\s*\{", ef)
        if not m:
            raise TranslateError(f"emit_for: arm Quantifier::{q} not found")
        j = match_brace(ef, m.end() - 1)
        body = ef[m.end():j]
        if not re.match(r"\s*block\.if_else\(\s*I32\s*,", body):
            raise TranslateError(f"emit_for {q}: not an if_else(I32, ..)")
        cl = closure_bodies(body)
        if len(cl) != 2:
            raise TranslateError(f"emit_for {q}: expected two branches")
        arms[q] = (arm(cl[0], q + " then"), arm(cl[1], q + " else"))
    m = re.search(r"Quantifier::Percentage\(_\)\s*\|\s*Quantifier::Expr\(_\)\s*=>\s*\{", ef)
    if not m:
        raise TranslateError("emit_for: arm for <expr> quantifiers not found")
    j = match_brace(ef, m.end() - 1)
    ex = ef[m.end():j]
    cmps = re.findall(r"BinaryOp::(I64\w+)|UnaryOp::(I64Eqz)", ex)
    cmps = [a or b for a, b in cmps]
    if cmps != ["I64GeS", "I64Ne", "I64Eqz"]:
        raise TranslateError(f"emit_for <expr> arm: comparisons {cmps}, expected I64GeS, I64Ne, I64Eqz")
    # i < n decides whether the loop repeats
    inc = re.search(r"let\s+incr_i_and_repeat\s*=", ef)
    if not inc or not re.search(r"incr_var\(ctx,\s*instr,\s*i\)\s*;.*?load_var\(ctx,\s*instr,\s*i\)\s*;\s*load_var\(ctx,\s*instr,\s*n\)\s*;\s*instr\.binop\(BinaryOp::I64LtS\)\s*;\s*instr\.br_if\(loop_start\)", ef, re.S):
        raise TranslateError("emit_for: incr_i_and_repeat shape changed")

    # ---- frame sizes
    fs = {}
    for n in ("OF_FRAME_SIZE", "FOR_OF_FRAME_SIZE", "FOR_IN_FRAME_SIZE"):
        fs[n] = int(const_i32(cctx, n))

    def cb(b): return "true" if b else "false"
    def carm(a): return f"({cb(a[0][0])}, {a[0][1]}, {cb(a[1][0])}, {a[1][1]})"
    text = f"""(* GENERATED by translate/gen_emit.py from lib/src/compiler/emit.rs, lib/src/wasm/mod.rs and
   lib/src/compiler/context.rs -- do not edit; regenerated on every check. *)
From Coq Require Import ZArith.
From YV Require Import Cond.Machine.
Local Open Scope Z_scope.

(* emit_shift_op!: `rhs <cmp> <const>` ? shift : <else> *)
Definition shift_guard_cmp : binop := {shift_cmp}.
Definition shift_guard_const : Z := {shift_const}.
Definition shift_guard_else : Z := {shift_else}.

(* emit_div / emit_mod *)
Definition div_zero_guard : bool := {cb(div_zero)}.
Definition mod_zero_guard : bool := {cb(mod_zero)}.
Definition div_minus_one_branch : bool := {cb(div_m1)}.

(* load_var / set_var_undef: flag word at (index / {flag_div}) * {flag_mul}, bit 1 << (index % {flag_rem}) *)
Definition flag_index_div : Z := {flag_div}.
Definition flag_word_bytes : Z := {flag_mul}.
Definition flag_index_rem : Z := {flag_rem}.
Definition var_slot_bytes : Z := 8.
Definition max_vars : Z := {max_vars}.
Definition vars_stack_start : Z := max_vars / {mv.group(1)}.
Definition lookup_indexes_start : Z := vars_stack_start + max_vars * 8.
Definition matching_rules_bitmap_base : Z := lookup_indexes_start + {ml.group(1)}.

(* the check of pattern_search_done is emitted unconditionally, and first, by every pattern operation *)
Definition search_check_unconditional : bool := {cb(unconditional)}.
Definition search_check_before_every_pattern_op : bool := {cb(before_each)}.

(* emit_for, arms none / all / any: (then repeats?, then value, else repeats?, else value) *)
Definition for_arm_none : bool * Z * bool * Z := {carm(arms['None'])}.
Definition for_arm_all : bool * Z * bool * Z := {carm(arms['All'])}.
Definition for_arm_any : bool * Z * bool * Z := {carm(arms['Any'])}.
(* arm <expr>: count >= max_count ? leave with (max_count != 0); after the loop: max_count == 0 *)
Definition for_expr_reached : binop := {cmps[0]}.
Definition for_expr_exit_value : binop := {cmps[1]}.

(* VarStack *)
Definition of_frame_size : nat := {fs['OF_FRAME_SIZE']}.
Definition for_of_frame_size : nat := {fs['FOR_OF_FRAME_SIZE']}.
Definition for_in_frame_size : nat := {fs['FOR_IN_FRAME_SIZE']}.
"""
    write_if_changed("EmitFacts.v", text)


if __name__ == "__main__":
    main()
