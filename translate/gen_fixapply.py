#!/usr/bin/env python3
"""Gen/FixApply.v from cli/src/commands/fix.rs (exec_fix_warnings) and
lib/src/compiler/ir/ast2ir.rs (fn escape, the producer's guard).

* sorts_by_start: the per-file patch vector is kept sorted with
  `sort_by_key(|patch| patch.span().start())` (stable);
* truncates_before_writing: `File::create(origin)` is executed before the
  loop that slices the input (so a slicing panic leaves a damaged file);
* groups_by_path_as_given: the key of `patches_per_origin` is the origin string
  of the patch (the path as written on the command line) rather than a
  canonical path.
* skips_overlapping: the loop starts with the guard `if span.start() <
  input_pos || span.end() < span.start() || span.end() > input.len() { ..;
  continue; }`;
* the three slicing expressions of the loop are the ones Fix/Patch.v models
  (checked, not parameterised);
* escape_table: the arms of `fn escape` (char -> replacement string) and the
  producer's guard (`(' '..='~').contains(&c) || c == '\\t' ...`) for the
  hex-pattern-as-text fix, used by Fix/Escape.v.

Raises TranslateError when a shape is not understood.
"""
import re
from tlib import *

CHAR = {"\\r": 13, "\\n": 10, "\\t": 9, "\\\\": 92, "\\'": 39, '"': 34, "\\\"": 34, "\\0": 0}


def char_lit(c):
    """Rust char literal body -> code point."""
    if c in CHAR: return CHAR[c]
    if len(c) == 1: return ord(c)
    raise TranslateError(f"char literal not understood: {c!r}")


def str_lit(s):
    """Rust (non-raw) string literal body -> list of byte values (ASCII only)."""
    out, i = [], 0
    while i < len(s):
        if s[i] == "\\":
            two = s[i:i + 2]
            if two not in CHAR: raise TranslateError(f"string escape not understood: {two!r}")
            out.append(CHAR[two]); i += 2
        else:
            if ord(s[i]) > 126: raise TranslateError("non-ASCII in replacement string")
            out.append(ord(s[i])); i += 1
    return out


def fix_flags(fix_src):
    body = strip_comments(fn_body(fix_src, "exec_fix_warnings", "cli/src/commands/fix.rs"))
    flat = re.sub(r"\s+", " ", body)
    # sorting: `|patch| patch.span().start()` or `|(_, patch)| patch.span().start()`
    m = re.search(r"\.sort_by_key\(\s*\|(?:\(\s*_\s*,\s*(\w+)\s*\)|(\w+))\|\s*(\w+)\.span\(\)\.(\w+)\(\)\s*\)", flat)
    if m:
        if (m.group(1) or m.group(2)) != m.group(3) or m.group(4) != "start":
            raise TranslateError(f"patches are sorted by something else than span().start(): {m.group(0)}")
        sorts = True
    elif re.search(r"\.sort", flat):
        raise TranslateError("exec_fix_warnings sorts the patches in a way that is not understood")
    else:
        sorts = False
    # the application loop
    lm = re.search(r"for (?:patch|\(\s*\w+\s*,\s*patch\s*\)) in patches \{", flat)
    if not lm:
        raise TranslateError("exec_fix_warnings: `for patch in patches {` not found")
    j = match_brace(flat, lm.end() - 1)
    loop = flat[lm.end():j]
    after = flat[j + 1:]
    before = flat[:lm.start()]
    W = r"(?:\.write_all|\.extend_from_slice)"
    Q = r"\)\??;"
    need = [
        (r"let warning_span = patch\.span\(\);", loop),
        (W + r"\(\s*&input\[input_pos\.\.warning_span\.start\(\)\]\s*" + Q, loop),
        (W + r"\(\s*patch\.replacement\(\)\.as_bytes\(\)\s*" + Q, loop),
        (r"input_pos = warning_span\.end\(\);", loop),
        (r"^\s*\w+" + W + r"\(\s*&input\[input_pos\.\.\]\s*" + Q, after),
        (r"let mut input_pos = 0;", before),
        (r"let input = fs::read\(origin\)\?;", before),
    ]
    for pat, where in need:
        if not re.search(pat, where):
            raise TranslateError(f"exec_fix_warnings: the patch application no longer has the modelled shape (missing `{pat}`)")
    # order inside the loop: slice write, replacement write, position update
    a = re.search(need[1][0], loop).start(); b = re.search(need[2][0], loop).start(); c = re.search(need[3][0], loop).start()
    if not (a < b < c):
        raise TranslateError("exec_fix_warnings: statements of the application loop are in a different order")
    # is a patch that overlaps the previous one (or leaves the file) skipped?
    skips = False
    gm = re.search(r"\bif\b(.*?)\{(.*?)\}", loop)
    if gm:
        cond = re.sub(r"\s+", "", gm.group(1))
        guard = "warning_span.start()<input_pos||warning_span.end()<warning_span.start()||warning_span.end()>input.len()"
        if cond != guard or not re.search(r"\bcontinue;\s*$", gm.group(2).strip()) or gm.start() > a:
            raise TranslateError(f"exec_fix_warnings: conditional inside the application loop not understood: if {gm.group(1).strip()[:120]}")
        if re.search(r"\bif\b", loop[gm.end():]):
            raise TranslateError("exec_fix_warnings: more than one conditional inside the application loop")
        skips = True
    if re.search(r"\b(break|return)\b", loop) or (not skips and re.search(r"\bcontinue\b", loop)):
        raise TranslateError("exec_fix_warnings: control flow inside the application loop not understood")
    # where is the file created/truncated?
    created_before = re.search(r"File::create\(origin\)", before) is not None
    if created_before:
        # must come after the read
        if before.rfind("File::create(origin)") < before.rfind("fs::read(origin)"):
            raise TranslateError("exec_fix_warnings: the file is truncated before it is read")
        trunc = True
    else:
        if not re.search(r"File::create\(|fs::write\(", after):
            raise TranslateError("exec_fix_warnings: cannot find where the output file is written")
        trunc = False
    # under which key are the patches of a file collected?
    km = re.search(r"patches_per_origin\.entry\(((?:[^()]|\([^()]*\))*)\)", before)
    if not km:
        raise TranslateError("exec_fix_warnings: `patches_per_origin.entry(..)` not found")
    key = re.sub(r"\s+", "", km.group(1))
    if key == "patch.origin().unwrap()":
        by_given_path = True
    elif key == "origin" and re.search(r"let origin = patch\.origin\(\)\.unwrap\(\); let origin = match fs::canonicalize\(&origin\) \{ Ok\(path\) => path\.to_string_lossy\(\)\.into_owned\(\), Err\(_\) => origin, \};", before):
        by_given_path = False
    else:
        raise TranslateError(f"exec_fix_warnings: key of patches_per_origin not understood: {km.group(1).strip()[:120]}")
    if not re.search(r"for \(origin, patches\) in &patches_per_origin \{ let input = fs::read\(origin\)\?;", before):
        raise TranslateError("exec_fix_warnings: no longer one read-patch-write round per key of patches_per_origin")
    return sorts, trunc, skips, by_given_path


def escape_table(ast2ir):
    body = strip_comments(fn_body(ast2ir, "escape", "ast2ir.rs fn escape"))
    flat = re.sub(r"\s+", " ", body)
    if not re.search(r"escaped\.push\('\"'\); for c in s\.chars\(\) \{ match c \{", flat) or flat.count("escaped.push('\"');") != 2:
        raise TranslateError("fn escape: no longer `push('\"'); for c in s.chars() { match c {..} } push('\"')`")
    m = re.search(r"match c \{", flat)
    j = match_brace(flat, m.end() - 1)
    arms = flat[m.end():j]
    table, default_ok = [], False
    for arm in [a.strip() for a in arms.split(",") if a.strip()]:
        am = re.fullmatch(r"'((?:\\.|[^'\\]))' => escaped\.push_str\(\"((?:\\.|[^\"\\])*)\"\)", arm)
        if am:
            table.append((char_lit(am.group(1)), str_lit(am.group(2)))); continue
        if re.fullmatch(r"_ => escaped\.push\(c\)", arm):
            default_ok = True; continue
        raise TranslateError(f"fn escape: arm not understood: {arm!r}")
    if not default_ok or not table:
        raise TranslateError("fn escape: default arm / table missing")
    # the guard of the producer
    hp = strip_comments(fn_body(ast2ir, "hex_pattern_from_ast"))
    hflat = re.sub(r"\s+", " ", hp)
    gm = re.search(r"literal\.chars\(\)\.all\(\|c\| \{ \('(.)'\.\.='(.)'\)\.contains\(&c\)((?: \|\| c == '(?:\\.|.)')*) \}\)", hflat)
    if not gm:
        raise TranslateError("hex_pattern_from_ast: guard of the text-literal fix not understood")
    lo, hi = ord(gm.group(1)), ord(gm.group(2))
    extra = [char_lit(x) for x in re.findall(r"c == '((?:\\.|.))'", gm.group(3))]
    if not re.search(r"as_literal_bytes\(\)\.and_then\(\|lit\| lit\.to_str\(\)\.ok\(\)\)", hflat):
        raise TranslateError("hex_pattern_from_ast: literal is no longer obtained through as_literal_bytes + to_str")
    if not re.search(r"\.patch\(code_loc, escape\(literal\)\)", hflat):
        raise TranslateError("hex_pattern_from_ast: the fix is no longer `escape(literal)`")
    return table, lo, hi, extra


def main():
    sorts, trunc, skips, by_given_path = fix_flags(src("cli/src/commands/fix.rs"))
    table, lo, hi, extra = escape_table(src("lib/src/compiler/ir/ast2ir.rs"))
    b = lambda x: "true" if x else "false"
    nl = lambda l: "[" + "; ".join(str(x) for x in l) + "]"
    text = f"""(* GENERATED by translate/gen_fixapply.py from cli/src/commands/fix.rs and
   lib/src/compiler/ir/ast2ir.rs -- do not edit; regenerated on every check. *)
From Coq Require Import List NArith.
Import ListNotations.
Local Open Scope N_scope.

(* exec_fix_warnings: patches of a file are kept sorted by span().start() (stable) *)
Definition sorts_by_start : bool := {b(sorts)}.
(* exec_fix_warnings: File::create(origin) happens before the slicing loop *)
Definition truncates_before_writing : bool := {b(trunc)}.
(* exec_fix_warnings: a patch with start < input_pos, end < start or end > len is skipped *)
Definition skips_overlapping : bool := {b(skips)}.
(* exec_fix_warnings: the patches are collected per path AS WRITTEN on the command line
   (patch.origin()), one read-patch-write round per key: a file given under two
   spellings is patched twice *)
Definition groups_by_path_as_given : bool := {b(by_given_path)}.

(* fn escape: char -> replacement; every other char is copied *)
Definition escape_table : list (N * list N) := [{"; ".join(f"({c}, {nl(r)})" for c, r in table)}].
(* hex_pattern_from_ast: the fix is offered iff every char is in lo..=hi or one of extra *)
Definition guard_lo : N := {lo}.
Definition guard_hi : N := {hi}.
Definition guard_extra : list N := {nl(extra)}.
"""
    write_if_changed("FixApply.v", text)


if __name__ == "__main__":
    main()
