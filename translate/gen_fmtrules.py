#!/usr/bin/env python3
"""Gen/FmtCats.v and Gen/FmtRules.v from the formatter's source.

Gen/FmtCats.v  (fmt/src/tokens/mod.rs)
  * the category bit of every `bitflags!` constant, the `pub static` names
    and the composed super-categories (CONTROL, TEXT, ...);
  * `cat_of_ctor`: the arms of `Token::category()`;
  * self-check: the constructors of `enum Token` are exactly those of the
    hand-written `token` type of Fmt/Tokens.v.

Gen/FmtRules.v (fmt/src/lib.rs, fmt/src/processor/mod.rs)
  * for every `Processor::new(..)[.set_passthrough(*CAT)].add_rule(cond, action)...`
    chain: the pass-through category and per rule the action
    (drop / copy / insert of a token list / swap) plus the top-level
    conjuncts of the condition of the form `ctx.token(i).is(CAT-expr)`;
    the meaning of `actions::{drop,copy,space,newline,emptyline,insert,swap}`
    is itself read from processor/mod.rs;
  * for every `Bubble::new(input, |token| AIR, |token| WATER)`: both classes;
  * `pipeline`: the order in which `format_impl` chains all its stages
    (Processor chains, Bubbles, CommentProcessor, FormatHexPatterns, Align,
    AddIndentation, RemoveTrailingSpaces; helper functions `Self::x(tokens)`
    are expanded), with the boolean option that selects a stage;
  * self-checks: MAX_PREV_TOKENS = MAX_NEXT_TOKENS = 3, the default
    pass-through category, every `token(n)` literal within range, every
    pipeline stage type of lib.rs is one this framework knows about.

Anything whose shape is not understood raises TranslateError.
"""
import re
from tlib import *

COQ_CTORS = ["None", "Begin", "End", "Indentation", "BlockBegin", "BlockEnd",
             "AlignmentBlockBegin", "AlignmentBlockEnd", "AlignmentMarker", "Whitespace", "Tab",
             "Comment", "BlockComment", "HeadComment", "TailComment", "InlineComment", "Newline",
             "Identifier", "Keyword", "Punctuation", "Literal", "LGrouping", "RGrouping"]
# payload kind of each constructor: None / 'kind' / 'int' / 'bytes'
PAYLOAD = {"None": None, "Begin": "kind", "End": "kind", "Indentation": "int", "BlockBegin": None,
           "BlockEnd": None, "AlignmentBlockBegin": None, "AlignmentBlockEnd": None,
           "AlignmentMarker": None, "Whitespace": None, "Tab": None, "Comment": "bytes",
           "BlockComment": "bytes", "HeadComment": "bytes", "TailComment": "bytes",
           "InlineComment": "bytes", "Newline": None, "Identifier": "bytes", "Keyword": "bytes",
           "Punctuation": "bytes", "Literal": "bytes", "LGrouping": "bytes", "RGrouping": "bytes"}

KNOWN_STAGE_TYPES = {"processor::Processor", "comments::CommentProcessor", "bubble::Bubble",
                     "FormatHexPatterns", "Align", "AddIndentation", "RemoveTrailingSpaces"}
# `X::new(` in lib.rs that are not pipeline stages
NOT_STAGES = {"Tokens", "Parser", "Cursor", "Vec", "Formatter", "Box", "Self", "Option", "io::Cursor"}

IDX = {1: "P1", 2: "P2", 3: "P3", -1: "M1", -2: "M2", -3: "M3"}


# ----------------------------------------------------------------- helpers
def split_top(s, sep):
    """split s on `sep` occurring outside (), [], {}, strings and closures' bars."""
    parts, depth, i, cur = [], 0, 0, []
    n, L = len(s), len(sep)
    while i < n:
        c = s[i]
        if c == '"':
            j = i + 1
            while j < n and s[j] != '"':
                j += 2 if s[j] == "\\" else 1
            cur.append(s[i:j + 1]); i = j + 1; continue
        if c in "([{":
            depth += 1
        elif c in ")]}":
            depth -= 1
        if depth == 0 and s.startswith(sep, i):
            # `||` must not be confused with `|` and vice versa
            if sep == "|" and (s.startswith("||", i) or (i > 0 and s[i - 1] == "|")):
                pass
            elif sep == "&&" or sep == "||" or sep == "|" or sep == "," or sep == ";":
                parts.append("".join(cur)); cur = []; i += L; continue
        cur.append(c); i += 1
    parts.append("".join(cur))
    return [p.strip() for p in parts]


def call_args(s, i):
    """s[i] == '(' ; returns (inside, index after the closing paren)."""
    j = match_brace(s, i, "(", ")")
    return s[i + 1:j], j + 1


class Interner:
    def __init__(self): self.ids = {}
    def id(self, b):
        if b not in self.ids: self.ids[b] = len(self.ids) + 1
        return self.ids[b]


# ----------------------------------------------------------------- categories
def parse_categories(tok_src):
    body, _, _ = block_after(tok_src, r"bitflags!\s*\{", "bitflags! block")
    flags = dict((m.group(1), int(m.group(2), 2))
                 for m in re.finditer(r"const\s+(\w+)\s*=\s*0b([01]+)\s*;", body))
    if len(flags) < 10:
        raise TranslateError("bitflags!: fewer category constants than expected")
    if len(set(flags.values())) != len(flags) or any(v == 0 or v & (v - 1) for v in flags.values()):
        raise TranslateError("bitflags!: category constants are not distinct single bits")
    statics = {}   # NAME -> (coq expr, value)
    cats_mod, _, _ = block_after(tok_src, r"pub\(crate\)\s+mod\s+categories\s*\{", "mod categories")
    for m in re.finditer(r"pub\s+static\s+(\w+)\s*:\s*LazyLock<Category>\s*=\s*LazyLock::new\(\s*\|\|\s*(\{.*?\}|[^;]*?)\)\s*;", cats_mod, re.S):
        name, e = m.group(1), m.group(2).strip()
        if e.startswith("{"): e = e[1:-1].strip()
        statics[name] = e
    if not statics:
        raise TranslateError("no `pub static NAME: LazyLock<Category>` found")
    resolved = {}
    def resolve(name, seen=()):
        if name in resolved: return resolved[name]
        if name in seen or name not in statics:
            raise TranslateError(f"category {name}: unknown or cyclic")
        e = statics[name]
        m = re.fullmatch(r"Category::(\w+)", e)
        if m:
            if m.group(1) not in flags: raise TranslateError(f"category {name}: unknown flag {m.group(1)}")
            resolved[name] = (str(flags[m.group(1)]), flags[m.group(1)])
        else:
            resolved[name] = cat_expr(e, lambda n: ("C_" + n, resolve(n, seen + (name,))[1]))
        return resolved[name]
    for n in statics: resolve(n)
    return flags, resolved


def cat_expr(e, lookup):
    """`*A | *B`, `*TEXT ^ *LGROUPING` -> (coq expr, value). Left-assoc, `|` and `^` only
    (Rust: ^ binds tighter than |)."""
    e = re.sub(r"\s+", "", e)
    if not e: raise TranslateError("empty category expression")
    ors = e.split("|")
    vals, exprs = [], []
    for o in ors:
        xs = o.split("^")
        v, x = None, None
        for a in xs:
            m = re.fullmatch(r"\*(?:categories::)?(\w+)", a)
            if not m: raise TranslateError(f"category expression not understood: {e!r}")
            ce, cv = lookup(m.group(1))
            if v is None: v, x = cv, ce
            else: v, x = v ^ cv, f"(N.lxor {x} {ce})"
        vals.append(v); exprs.append(x)
    v, x = vals[0], exprs[0]
    for vv, xx in zip(vals[1:], exprs[1:]):
        v, x = v | vv, f"(N.lor {x} {xx})"
    return x, v


def parse_token_enum(tok_src):
    body, _, _ = block_after(strip_comments(tok_src), r"pub\(crate\)\s+enum\s+Token<'a>\s*\{", "enum Token")
    body = re.sub(r"#\[[^\]]*\]", "", body)
    ctors = []
    for part in split_top(body, ","):
        if not part: continue
        m = re.match(r"(\w+)", part)
        if not m: raise TranslateError(f"enum Token: cannot parse variant {part!r}")
        ctors.append(m.group(1))
    return ctors


def parse_category_fn(tok_src, resolved):
    body = strip_comments(fn_body(tok_src, "category", "Token::category"))
    m = re.search(r"match\s+self\s*\{", body)
    if not m: raise TranslateError("Token::category: no `match self`")
    j = match_brace(body, m.end() - 1)
    arms = body[m.end():j]
    table = {}
    for arm in re.finditer(r"((?:\s*\|?\s*Token::\w+(?:\([^)]*\))?)+)\s*=>\s*\*categories::(\w+)\s*,", arms):
        cat = arm.group(2)
        if cat not in resolved: raise TranslateError(f"Token::category: unknown category {cat}")
        for c in re.findall(r"Token::(\w+)", arm.group(1)):
            if c in table: raise TranslateError(f"Token::category: {c} matched twice")
            table[c] = cat
    return table


# ----------------------------------------------------------------- tokens / actions
class Ctx:
    def __init__(self, resolved, consts, interner):
        self.resolved, self.consts, self.interner = resolved, consts, interner
    def cat(self, name):
        if name not in self.resolved: raise TranslateError(f"unknown category {name}")
        return ("C_" + name, self.resolved[name][1])


def token_expr(e, cx):
    """Rust token expression -> Coq token term."""
    e = e.strip()
    e = re.sub(r"^&", "", e).strip()
    e = re.sub(r"^(?:crate::)?(?:tokens::)?Token::", "", e)
    if e in cx.consts:                       # LBRACE, COLON, ...
        return token_expr(cx.consts[e], cx)
    m = re.fullmatch(r"(\w+)(?:\((.*)\))?", e, re.S)
    if not m or m.group(1) not in PAYLOAD:
        raise TranslateError(f"token expression not understood: {e!r}")
    name, arg = m.group(1), m.group(2)
    kind = PAYLOAD[name]
    if kind is None:
        if arg is not None: raise TranslateError(f"token {name} takes no argument: {e!r}")
        return "T" + name
    if arg is None: raise TranslateError(f"token {name} needs an argument: {e!r}")
    arg = arg.strip()
    if kind == "int":
        if not re.fullmatch(r"-?\d+", arg): raise TranslateError(f"Indentation argument: {arg!r}")
        return f"(T{name} ({arg})%Z)"
    if kind == "kind":
        m2 = re.fullmatch(r"SyntaxKind::(\w+)", arg)
        if not m2: raise TranslateError(f"Begin/End argument: {arg!r}")
        return f"(T{name} K_{m2.group(1)})"
    m2 = re.fullmatch(r'b"((?:[^"\\]|\\.)*)"', arg)
    if not m2: raise TranslateError(f"byte-string argument: {arg!r}")
    bs = m2.group(1).encode("utf-8").decode("unicode_escape").encode("latin-1")
    cx.interner.id(m2.group(1))
    return f"(T{name} [" + "; ".join(str(b) for b in bs) + "]%N)"


def parse_action_fns(proc_src, cx):
    """meaning of processor::actions::* from their bodies."""
    mod, _, _ = block_after(proc_src, r"pub\(crate\)\s+mod\s+actions\s*\{", "mod actions")
    mod = strip_comments(mod)
    out = {}
    for m in re.finditer(r"fn\s+(\w+)\s*<", mod):
        name = m.group(1)
        body = re.sub(r"\s+", " ", fn_body(mod, name, "actions::" + name, m.start())).strip()
        stmts = [s for s in split_top(body, ";") if s]
        pushes = [re.fullmatch(r"ctx\.push_output_token\(\s*Some\((.*)\)\s*\)", s) for s in stmts]
        if stmts == ["ctx.pop_input_token()"]:
            out[name] = ("const", "ADrop")
        elif stmts == ["let token = ctx.pop_input_token()", "ctx.push_output_token(token)"]:
            out[name] = ("const", "ACopy")
        elif stmts and all(pushes):
            out[name] = ("const", "AInsert [" + "; ".join(token_expr(p.group(1), cx) for p in pushes) + "]")
        elif re.fullmatch(r"Box::new\(\s*move \|ctx\| ctx\.push_output_token\(\s*Some\(token\.clone\(\)\)\s*\)\s*\)", body):
            out[name] = ("insert",)
        elif re.fullmatch(r"Box::new\(\s*move \|ctx\| ctx\.swap\(i, j\)\s*\)", body):
            out[name] = ("swap",)
        else:
            raise TranslateError(f"actions::{name}: body not understood: {body[:120]!r}")
    for need in ("drop", "newline", "space", "emptyline", "insert"):
        if need not in out: raise TranslateError(f"actions::{need} not found")
    return out


def action_expr(a, actions, cx):
    a = a.strip()
    m = re.fullmatch(r"(?:processor::)?actions::(\w+)(?:\((.*)\))?", a, re.S)
    if m:
        name, arg = m.group(1), m.group(2)
        if name not in actions: raise TranslateError(f"unknown action {name}")
        k = actions[name]
        if k[0] == "const":
            if arg is not None: raise TranslateError(f"action {name} takes no argument")
            return k[1]
        if arg is None: raise TranslateError(f"action {name} needs arguments")
        if k[0] == "insert":
            return "AInsert [" + token_expr(arg, cx) + "]"
        if k[0] == "swap":
            ij = [x.strip() for x in arg.split(",")]
            if len(ij) != 2 or not all(x in ("1", "2", "3") for x in ij):
                raise TranslateError(f"swap arguments: {arg!r}")
            return f"ASwap Q{ij[0]} Q{ij[1]}"
    m = re.fullmatch(r"(?:move\s+)?\|ctx\|\s*\{(.*)\}", a, re.S)
    if m:
        stmts = [s for s in split_top(m.group(1), ";") if s]
        toks = []
        for s in stmts:
            p = re.fullmatch(r"ctx\.push_output_token\(\s*Some\((.*)\)\s*\)", s, re.S)
            if not p: raise TranslateError(f"action closure statement not understood: {s!r}")
            toks.append(token_expr(p.group(1), cx))
        if not toks: raise TranslateError("empty action closure")
        return "AInsert [" + "; ".join(toks) + "]"
    raise TranslateError(f"action not understood: {a[:100]!r}")


# ----------------------------------------------------------------- conditions
def closure_parts(c, param):
    """`[move] |param| body` -> (lets {name: idx}, final expression)."""
    m = re.fullmatch(r"(?:move\s+)?\|\s*" + param + r"\s*\|\s*(.*)", c.strip(), re.S)
    if not m: raise TranslateError(f"closure not understood: {c[:80]!r}")
    body = m.group(1).strip()
    lets = {}
    if body.startswith("{") and match_brace(body, 0) == len(body) - 1:
        stmts = split_top(body[1:-1], ";")
        final = stmts[-1]
        for s in stmts[:-1]:
            lm = re.fullmatch(r"let\s+(\w+)\s*=\s*(.*)", s, re.S)
            if not lm: raise TranslateError(f"condition closure: statement not understood: {s[:80]!r}")
            tm = re.fullmatch(r"ctx\.token\(\s*(-?\d+)\s*\)", lm.group(2).strip())
            if tm: lets[lm.group(1)] = int(tm.group(1))
            else: lets.pop(lm.group(1), None)     # some other binding (a bool): opaque
        if not final: raise TranslateError("condition closure without a final expression")
        body = final
    if re.search(r"\b(return|if|match|loop|while|for)\b", re.sub(r"matches!", "", body)):
        raise TranslateError(f"condition uses control flow: {body[:80]!r}")
    return lets, body


def strip_parens(e):
    e = e.strip()
    while e.startswith("(") and match_brace(e, 0, "(", ")") == len(e) - 1:
        e = e[1:-1].strip()
    return e


def guards_of(cond, cx):
    """top-level conjuncts `ctx.token(i).is(CAT)` common to every top-level disjunct."""
    lets, body = closure_parts(cond, "ctx")
    common = None
    for disj in split_top(strip_parens(body), "||"):
        gs = []
        for conj in split_top(strip_parens(disj), "&&"):
            conj = strip_parens(conj)
            m = re.fullmatch(r"(?:ctx\.token\(\s*(-?\d+)\s*\)|(\w+))\s*\.is\(\s*([^()]*)\s*\)", conj, re.S)
            if not m: continue
            if m.group(1) is not None: n = int(m.group(1))
            elif m.group(2) in lets: n = lets[m.group(2)]
            else: continue
            if n not in IDX: raise TranslateError(f"token({n}) out of range")
            x, v = cat_expr(m.group(3), cx.cat)
            gs.append((IDX[n], x, v))
        common = gs if common is None else [g for g in common if g in gs]
    return common or []


# ----------------------------------------------------------------- classes (Bubble)
def class_of(closure, cx):
    _, body = closure_parts(closure, "token")
    atoms = []
    for alt in split_top(strip_parens(body), "||"):
        alt = strip_parens(alt)
        m = re.fullmatch(r"matches!\(\s*token\s*,(.*)\)", alt, re.S)
        if m:
            for p in split_top(m.group(1), "|"):
                pm = re.fullmatch(r"(?:Token::)?(\w+)(?:\(\s*_\s*\))?", p.strip())
                if not pm or pm.group(1) not in PAYLOAD:
                    raise TranslateError(f"Bubble class pattern not understood: {p!r}")
                atoms.append(f"KCtor K{pm.group(1)}")
            continue
        m = re.fullmatch(r"token\.is\(\s*([^()]*)\s*\)", alt, re.S)
        if m:
            atoms.append(f"KCat {cat_expr(m.group(1), cx.cat)[0]}")
            continue
        raise TranslateError(f"Bubble class not understood: {alt[:80]!r}")
    return "[" + "; ".join(atoms) + "]"


# ----------------------------------------------------------------- lib.rs
def enclosing_fn(text, pos):
    name = "?"
    for m in re.finditer(r"\bfn\s+(\w+)", text):
        if m.start() > pos: break
        name = m.group(1)
    return name


def parse_lib(lib_src, actions, cx, default_pt):
    text = strip_comments(lib_src)
    # the test module is not part of the pipeline
    text = re.sub(r"#\[cfg\(test\)\]\s*mod\s+tests\s*;", "", text)
    # verification hooks are add-only and guarded; they are not part of the pipeline
    text = re.sub(r"#\[cfg\(yara_x_verif\)\]\s*pub\s+mod\s+\w+\s*;", "", text)
    # every `token(n)` literal must be representable
    for m in re.finditer(r"\.token\(\s*(-?\d+)\s*\)", text):
        if int(m.group(1)) not in IDX:
            raise TranslateError(f"ctx.token({m.group(1)}) is outside -3..3 / zero: panics at run time, not modelled")
    if re.search(r"\.token\(\s*[^-\d\s]", text):
        raise TranslateError("ctx.token(<non-literal>) is not understood")
    # stage types
    for m in re.finditer(r"([A-Za-z_][A-Za-z_0-9:]*)::new\(", text):
        t = m.group(1)
        if t in KNOWN_STAGE_TYPES or t in NOT_STAGES: continue
        raise TranslateError(f"unknown pipeline stage type `{t}::new(` in fmt/src/lib.rs")
    stages, bubbles, kinds = [], [], set()
    proc_offsets, bubble_offsets = [], []
    for m in re.finditer(r"(?<![A-Za-z_0-9])(?:processor::)?Processor::new\(", text):
        proc_offsets.append(m.start())
        i = m.end() - 1
        _, i = call_args(text, i)
        pt = default_pt
        rules = []
        while True:
            cm = re.compile(r"\s*\.(\w+)\(").match(text, i)
            if not cm: break
            meth = cm.group(1)
            args, i2 = call_args(text, cm.end() - 1)
            if meth == "set_passthrough":
                pt = cat_expr(args, cx.cat)[0]
            elif meth == "add_rule":
                parts = [p for p in split_top(args, ",") if p != ""]
                if len(parts) != 2: raise TranslateError(f"add_rule with {len(parts)} arguments: {args[:80]!r}")
                act = action_expr(parts[1], actions, cx)
                gs = guards_of(parts[0], cx)
                rules.append((act, gs, re.sub(r"\s+", " ", parts[0])[:160]))
            elif meth == "debug":
                pass
            else:
                raise TranslateError(f"Processor builder method `{meth}` not understood")
            i = i2
        if not rules:
            raise TranslateError(f"Processor::new at offset {m.start()} has no rules")
        stages.append((enclosing_fn(text, m.start()), pt, rules))
    for m in re.finditer(r"(?<![A-Za-z_0-9])(?:bubble::)?Bubble::new\(", text):
        bubble_offsets.append(m.start())
        args, _ = call_args(text, m.end() - 1)
        parts = [p for p in split_top(args, ",") if p != ""]
        if len(parts) != 3: raise TranslateError("Bubble::new: expected 3 arguments")
        bubbles.append((class_of(parts[1], cx), class_of(parts[2], cx), enclosing_fn(text, m.start())))
    if len(stages) < 5: raise TranslateError("fewer Processor stages than expected")
    if not bubbles: raise TranslateError("no Bubble stage found")
    pipeline, opts = parse_pipeline(text, proc_offsets, bubble_offsets)
    return stages, bubbles, pipeline, opts


# ----------------------------------------------------------------- pipeline order
def fn_body_at(text, name):
    body = fn_body(text, name, "fmt/src/lib.rs")
    base = text.find(body)
    if base < 0 or text.find(body, base + 1) >= 0:
        raise TranslateError(f"fn {name}: cannot locate its body")
    return body, base


def statements(body, base):
    """[(stmt, absolute offset)] of the top-level `;`-separated statements."""
    out, cursor = [], 0
    for st in split_top(body, ";"):
        if not st: continue
        pos = body.find(st, cursor)
        if pos < 0: raise TranslateError("statement splitting lost track of offsets")
        out.append((st, base + pos)); cursor = pos + len(st)
    return out


def parse_pipeline(text, proc_offsets, bubble_offsets):
    # boolean options of the Formatter, numbered in declaration order
    sm = re.search(r"pub\s+struct\s+Formatter\s*\{", text)
    if not sm: raise TranslateError("struct Formatter not found")
    sbody = text[sm.end():match_brace(text, sm.end() - 1)]
    opts = re.findall(r"(\w+)\s*:\s*bool\s*,", sbody)
    if len(opts) < 3: raise TranslateError("struct Formatter: boolean options not found")

    def first_arg_is(args, var, what):
        a = split_top(args, ",")[0].strip()
        if a != var: raise TranslateError(f"pipeline: {what} is applied to `{a}`, expected `{var}`")

    def expr_stages(e, off, var, depth=0):
        """list of bstage terms for an expression consuming `var`."""
        lead = len(e) - len(e.lstrip()); e = e.strip(); off += lead
        if e == var: return []
        m = re.match(r"Box::new\(", e)
        if m and match_brace(e, m.end() - 1, "(", ")") == len(e) - 1:
            return expr_stages(e[m.end():-1], off + m.end(), var, depth)
        m = re.match(r"(?:processor::)?Processor::new\(", e)
        if m:
            args, _ = call_args(e, m.end() - 1); first_arg_is(args, var, "Processor::new")
            if off not in proc_offsets: raise TranslateError("pipeline: Processor::new at an unexpected offset")
            return [f"BProc {proc_offsets.index(off)}"]
        m = re.match(r"(?:bubble::)?Bubble::new\(", e)
        if m:
            args, _ = call_args(e, m.end() - 1); first_arg_is(args, var, "Bubble::new")
            if off not in bubble_offsets: raise TranslateError("pipeline: Bubble::new at an unexpected offset")
            return [f"BBubble {bubble_offsets.index(off)}"]
        flat = re.sub(r"\s+", "", e)
        simple = {f"comments::CommentProcessor::new({var}).tab_size(self.tab_size)": "BComments",
                  f"FormatHexPatterns::new({var})": "BHex", f"Align::new({var})": "BAlign",
                  f"AddIndentation::new({var},self.indentation)": "BIndent",
                  f"RemoveTrailingSpaces::new({var})": "BTrailing"}
        if flat in simple: return [simple[flat]]
        m = re.match(r"Self::(\w+)\(", e)
        if m and match_brace(e, m.end() - 1, "(", ")") == len(e) - 1:
            if depth > 3: raise TranslateError("pipeline: helper functions nested too deeply")
            args, _ = call_args(e, m.end() - 1); first_arg_is(args, var, "Self::" + m.group(1))
            return helper_stages(m.group(1), depth + 1)
        raise TranslateError(f"pipeline: stage expression not understood: {e[:100]!r}")

    def helper_stages(name, depth):
        body, base = fn_body_at(text, name)
        sig = re.search(r"fn\s+" + name + r"\s*<[^>]*>\s*\(\s*(\w+)\s*:", text)
        if not sig: raise TranslateError(f"fn {name}: first parameter not found")
        var = sig.group(1)
        sts = statements(body, base)
        out = []
        for st, off in sts[:-1]:
            lm = re.match(r"let\s+(\w+)\s*=\s*", st)
            if not lm: raise TranslateError(f"fn {name}: statement not understood: {st[:80]!r}")
            out += expr_stages(st[lm.end():], off + lm.end(), var, depth); var = lm.group(1)
        st, off = sts[-1]
        return out + expr_stages(st, off, var, depth)

    body, base = fn_body_at(text, "format_impl")
    sts = statements(body, base)
    pipeline = []
    var = "input"
    for k, (st, off) in enumerate(sts):
        last = k == len(sts) - 1
        if last:
            e, eoff = st, off
        else:
            lm = re.match(r"let\s+tokens\s*", st)
            if not lm: raise TranslateError(f"format_impl: statement not understood: {st[:80]!r}")
            # skip an optional type annotation: the `=` outside angle brackets
            i, depth = lm.end(), 0
            while i < len(st) and not (st[i] == "=" and depth == 0):
                if st[i] == "<": depth += 1
                elif st[i] == ">": depth -= 1
                i += 1
            if i >= len(st): raise TranslateError(f"format_impl: statement not understood: {st[:80]!r}")
            e, eoff = st[i + 1:], off + i + 1
        im = re.match(r"if\s+self\.(\w+)\s*\{", e.strip())
        if im:
            es = e.strip(); eoff += len(e) - len(e.lstrip())
            j = match_brace(es, im.end() - 1)
            em = re.match(r"\s*else\s*\{", es[j + 1:])
            if not em: raise TranslateError("format_impl: `if` without `else` in the pipeline")
            k2 = match_brace(es, j + 1 + em.end() - 1)
            if es[k2 + 1:].strip(): raise TranslateError("format_impl: trailing text after if/else")
            if im.group(1) not in opts: raise TranslateError(f"format_impl: unknown option self.{im.group(1)}")
            a = expr_stages(es[im.end():j], eoff + im.end(), var)
            b = expr_stages(es[j + 1 + em.end():k2], eoff + j + 1 + em.end(), var)
            if "if " in es[im.end():j] or "if " in es[j + 1 + em.end():k2]:
                raise TranslateError("format_impl: nested conditionals in the pipeline")
            pipeline.append(f"PIf {opts.index(im.group(1))}%N [{'; '.join(a)}] [{'; '.join(b)}]  (* self.{im.group(1)} *)")
        else:
            for b in expr_stages(e, eoff, var):
                pipeline.append(f"PBase ({b})")
        var = "tokens"
    used = set(re.findall(r"BProc (\d+)", " ".join(pipeline)))
    if used != set(str(i) for i in range(len(proc_offsets))):
        raise TranslateError(f"pipeline: Processor stages not reached from format_impl: {sorted(set(map(str, range(len(proc_offsets)))) - used)}")
    usedb = set(re.findall(r"BBubble (\d+)", " ".join(pipeline)))
    if usedb != set(str(i) for i in range(len(bubble_offsets))):
        raise TranslateError("pipeline: Bubble stages not reached from format_impl")
    return pipeline, opts


def modified_flag_shape(lib_src):
    """how Formatter::format computes the flag it returns."""
    text = strip_comments(lib_src)
    m = re.search(r"pub\s+fn\s+format\s*<", text)
    if not m: raise TranslateError("Formatter::format not found")
    body = re.sub(r"\s+", " ", fn_body(text, "format", "Formatter::format", m.start()))
    need = [r"input\.read_to_end\(&mut in_buf\)", r"\.write_to\(&mut out_buf\)",
            r"let modified = in_buf\.ne\(out_buf\.get_ref\(\)\);",
            r"output\.write_all\(out_buf\.get_ref\(\)\)", r"Ok\(modified\) *$"]
    pos = -1
    for pat in need:
        mm = re.search(pat, body)
        if not mm or mm.start() < pos:
            raise TranslateError(f"Formatter::format: the computation of `modified` no longer has the modelled shape (`{pat}`)")
        pos = mm.start()
    if len(re.findall(r"\bmodified\b", body)) != 2:
        raise TranslateError("Formatter::format: `modified` is used in a way that is not understood")
    return "true"


def comment_blank_line_shape(comments_src):
    """split_comment_lines: what happens to a line that consists of indentation only
    (the scanning loop runs out of characters): `comment_start` keeps its initial value."""
    body = re.sub(r"\s+", " ", strip_comments(fn_body(comments_src, "split_comment_lines", "fmt/src/comments.rs")))
    need = [r"for line in comment\.lines\(\) \{", r"let mut i = 0;", r"let mut comment_start = ([^;]+);",
            r"for \(start, _, ch\) in line\.char_indices\(\) \{ if i >= indentation \{ comment_start = start; break; \}",
            r"match ch \{ ' ' => i \+= 1, '\\t' => i \+= tab_size, _ => \{ comment_start = start; break; \} \}",
            r"result\.push\(line\.get\(comment_start\.\.\)\.unwrap_or_default\(\)\.to_vec\(\)\);"]
    pos = -1
    for pat in need:
        m = re.search(pat, body)
        if not m or m.start() < pos:
            raise TranslateError(f"split_comment_lines no longer has the modelled shape (`{pat}`)")
        pos = m.start()
    init = re.search(need[2], body).group(1).strip()
    if init == "0": return "false"
    if init == "line.len()": return "true"
    raise TranslateError(f"split_comment_lines: initial value of comment_start not understood: {init}")


def yr_fmt_shape(cli_src):
    """how `yr fmt` (cli/src/commands/fmt.rs, exec_fmt) writes a file back."""
    body = re.sub(r"\s+", " ", strip_comments(fn_body(cli_src, "exec_fmt", "cli/src/commands/fmt.rs")))
    need = [r"let input = fs::read\(file_path\)\?;",
            r"let file_modified = if check \{ formatter\.format\(input\.as_slice\(\), io::sink\(\)\)\? \} else \{",
            r"if formatter\.format\(input\.as_slice\(\), &mut formatted\)\? \{",
            r"io::copy\(&mut formatted, &mut output_file\)\?;",
            r"if file_modified \{ modified_files\.push\(",
            r"if !modified_files\.is_empty\(\) \{ .*process::exit\(1\) \}"]
    pos = -1
    for pat in need:
        m = re.search(pat, body)
        if not m or m.start() < pos:
            raise TranslateError(f"exec_fmt: `yr fmt` no longer has the modelled shape (`{pat}`)")
        pos = m.start()
    m = re.search(r"let mut output_file = (.*?);", body)
    if not m: raise TranslateError("exec_fmt: cannot find how the output file is opened")
    how = m.group(1).replace(" ", "")
    if how == "File::create(file_path)?":
        return "true"
    if re.fullmatch(r"OpenOptions::new\(\)(\.\w+\(true\))+\.open\(file_path\)\?", how):
        flags = set(re.findall(r"\.(\w+)\(true\)", how))
        if "write" not in flags or "append" in flags: raise TranslateError(f"exec_fmt: output file opened with {sorted(flags)}")
        return "true" if "truncate" in flags else "false"
    raise TranslateError(f"exec_fmt: the way the output file is opened is not understood: {m.group(1)[:80]}")


def main():
    tok_src = src("fmt/src/tokens/mod.rs")
    proc_src = src("fmt/src/processor/mod.rs")
    lib_src = src("fmt/src/lib.rs")
    parser_kinds = src("parser/src/cst/syntax_kind.rs")

    flags, resolved = parse_categories(tok_src)
    ctors = parse_token_enum(tok_src)
    if ctors != COQ_CTORS:
        raise TranslateError(f"enum Token changed: {ctors} (model has {COQ_CTORS})")
    cat_tab = parse_category_fn(tok_src, resolved)
    if set(cat_tab) != set(ctors):
        raise TranslateError(f"Token::category does not cover exactly the constructors: {sorted(set(ctors) ^ set(cat_tab))}")

    # token constants (LBRACE, COLON, ...)
    consts = {}
    for m in re.finditer(r"pub\(crate\)\s+static\s+(\w+)\s*:\s*LazyLock<Token<'static>>\s*=\s*LazyLock::new\(\s*\|\|\s*(.*?)\)\s*;", strip_comments(tok_src), re.S):
        consts[m.group(1)] = m.group(2).strip()

    # SyntaxKind discriminants (repr(u16), declaration order)
    kbody, _, _ = block_after(strip_comments(parser_kinds), r"pub\s+enum\s+SyntaxKind\s*\{", "enum SyntaxKind")
    knames = [k for k in (x.strip() for x in kbody.split(",")) if k]
    if not all(re.fullmatch(r"[A-Za-z_][A-Za-z_0-9]*", k) for k in knames) or len(knames) < 50:
        raise TranslateError("enum SyntaxKind: unexpected shape (explicit discriminants?)")
    if not re.search(r"#\[repr\(u16\)\]", parser_kinds):
        raise TranslateError("enum SyntaxKind is no longer repr(u16)")

    # engine constants
    ps = strip_comments(proc_src)
    mp = re.search(r"const\s+MAX_PREV_TOKENS\s*:\s*usize\s*=\s*(\d+)", ps)
    mn = re.search(r"const\s+MAX_NEXT_TOKENS\s*:\s*usize\s*=\s*(\d+)", ps)
    if not mp or not mn or (mp.group(1), mn.group(1)) != ("3", "3"):
        raise TranslateError("MAX_PREV_TOKENS / MAX_NEXT_TOKENS are not both 3 (Fmt/Processor.v models 3)")
    dm = re.search(r"passthrough\s*:\s*\*categories::(\w+)", ps)
    if not dm or dm.group(1) not in resolved:
        raise TranslateError("Processor::new: default pass-through category not found")
    default_pt = "C_" + dm.group(1)

    interner = Interner()
    cx = Ctx(resolved, consts, interner)
    actions = parse_action_fns(proc_src, cx)
    stages, bubbles, pipeline, opts = parse_lib(lib_src, actions, cx, default_pt)

    # ---------------- FmtCats.v
    order = sorted(resolved, key=lambda n: (bin(resolved[n][1]).count("1") > 1, resolved[n][1]))
    lines = ["(* GENERATED by translate/gen_fmtrules.py from fmt/src/tokens/mod.rs -- do not edit;",
             "   regenerated on every check. *)",
             "From Coq Require Import NArith.",
             "From YV Require Import Fmt.Tokens.",
             "Local Open Scope N_scope.", "",
             "(* categories (bitflags! Category + the `pub static` names) *)"]
    for n in order:
        e, v = resolved[n]
        lines.append(f"Definition C_{n} : N := {e}.  (* = {v} *)")
    lines += ["", "(* Token::category() *)", "Definition cat_of_ctor (k : ctor) : N :=", "  match k with"]
    for c in COQ_CTORS:
        lines.append(f"  | K{c} => C_{cat_tab[c]}")
    lines += ["  end.", ""]
    lines += ["(* grammar rule kinds the hand-written stages look at (parser/src/cst/syntax_kind.rs) *)"]
    for k in ("HEX_PATTERN",):
        if k not in knames: raise TranslateError(f"SyntaxKind::{k} not found in the parser")
        lines.append(f"Definition K_{k} : N := {knames.index(k)}.")
    lines.append("")
    text = "\n".join(lines)
    write_if_changed("FmtCats.v", text)

    # ---------------- FmtRules.v
    used_kinds = sorted(set(re.findall(r"K_(\w+)", " ".join(a for s in stages for (a, _, _) in s[2]))))
    out = ["(* GENERATED by translate/gen_fmtrules.py from fmt/src/lib.rs and",
           "   fmt/src/processor/mod.rs -- do not edit; regenerated on every check. *)",
           "From Coq Require Import List NArith ZArith.",
           "From YV Require Import Fmt.Tokens Gen.FmtCats Fmt.Processor Fmt.Bubble Fmt.Pipeline.",
           "Import ListNotations.", "Local Open Scope N_scope.", ""]
    for k in used_kinds:
        if k not in knames: raise TranslateError(f"SyntaxKind::{k} not found in the parser")
        out.append(f"Definition K_{k} : N := {knames.index(k)}.")
    if interner.ids:
        out.append("(* byte strings used: " + ", ".join(repr(k).replace(chr(34), chr(39)) for k in interner.ids) + " *)")
    out.append("")
    names = []
    for n, (fn, pt, rules) in enumerate(stages, 1):
        out.append(f"(* Processor #{n} in fn {fn} *)")
        out.append(f"Definition stage_{n} : gstage := mkGStage {n} {pt} [")
        rl = []
        for act, gs, condtxt in rules:
            g = "; ".join(f"({i}, {x})" for (i, x, _) in gs)
            rl.append(f"  (* {coq_comment_safe(condtxt).replace(chr(34), chr(39))} *)\n  mkGRule ({act}) [{g}]")
        out.append(";\n".join(rl))
        out.append("].")
        names.append(f"stage_{n}")
    out.append("")
    out.append("Definition stages : list gstage := [" + "; ".join(names) + "].")
    out.append("")
    out.append("(* Bubble::new(input, is_air, is_water) *)")
    out.append("Definition bubbles : list (tclass * tclass) := [")
    out.append(";\n".join(f"  ({a}, {w})  (* in fn {fn} *)" for a, w, fn in bubbles))
    out.append("].")
    out.append("")
    out.append("(* format_impl: the stages in the order they are chained; BProc n / BBubble n index")
    out.append("   [stages] / [bubbles] from 0.  Options: " + ", ".join(f"{i} = {o}" for i, o in enumerate(opts)) + " *)")
    out.append("Definition pipeline : list pstage := [")
    lines_p = []
    for i, p_ in enumerate(pipeline):
        sep = ";" if i < len(pipeline) - 1 else ""
        if "(*" in p_:
            code, com = p_.split("  (*", 1)
            lines_p.append(f"  {code}{sep}  (*{com}")
        else:
            lines_p.append(f"  {p_}{sep}")
    out += lines_p
    out.append("]%nat.")
    out.append(f"Definition num_options : nat := {len(opts)}.")
    out.append("")
    out.append("(* Formatter::format: `let modified = in_buf.ne(out_buf.get_ref());` ... `output.write_all(out_buf.get_ref())` ... `Ok(modified)` *)")
    out.append(f"Definition modified_is_byte_inequality : bool := {modified_flag_shape(lib_src)}.")
    out.append("")
    out.append("(* cli/src/commands/fmt.rs, exec_fmt: a modified file is written through a handle that truncates it (File::create) *)")
    out.append(f"Definition yr_fmt_truncates : bool := {yr_fmt_shape(src('cli/src/commands/fmt.rs'))}.")
    write_if_changed("FmtComments.v", "(* GENERATED by translate/gen_fmtrules.py from fmt/src/comments.rs -- do not edit. *)\n"
        "(* split_comment_lines: a comment line made of indentation only is emptied (true) or kept as it is (false) *)\n"
        f"Definition blank_comment_lines_stripped : bool := {comment_blank_line_shape(src('fmt/src/comments.rs'))}.\n")
    out.append("")
    write_if_changed("FmtRules.v", "\n".join(out))


if __name__ == "__main__":
    main()
