#!/usr/bin/env python3
"""Gen/FoldGen.v from lib/src/compiler/ir/mod.rs (constant folding, C03).

Extracted:
* through which Rust type `fold_arithmetic` reduces INTEGER operands:
  `fold_via_f64` is true iff integer operands are converted with `v as f64`
  and the integer result is produced by `folded as i64`; it is false iff the
  body uses checked i64 arithmetic instead (anything else: TranslateError);
* the two bounds of the range test that follows the reduction
  (`folded >= i64::MIN as f64 && folded <= i64::MAX as f64`) as the integers
  named in the source (the model applies `as f64` = round53 to them);
* which IR constructors call fold_arithmetic and with which closure
  (add: acc + x, sub: acc - x, mul: acc * x; div / modulus: not folded);
* which other constructors fold under `self.constant_folding`
  (minus, bitwise_not, bitwise_and/or/xor, shl, shr, not, and, or) and that
  the comparison constructors do not: the hand-written model (Opt/Fold.v)
  has exactly these rules, so a change of the set is a TranslateError.
"""
import re
from tlib import *

INT_NAMES = {"i64::MIN": -(2 ** 63), "i64::MAX": 2 ** 63 - 1}

EXPECT_FOLDING = {
    # constructor -> must contain `self.constant_folding`
    "ident": True, "not": True, "and": True, "or": True, "minus": True, "defined": False,
    "bitwise_not": True, "bitwise_and": True, "bitwise_or": True, "bitwise_xor": True,
    "shl": True, "shr": True, "add": True, "sub": True, "mul": True, "div": False, "modulus": False,
    "eq": False, "ne": False, "ge": False, "gt": False, "le": False, "lt": False,
}
CLOSURES = {"add": "+", "sub": "-", "mul": "*"}


def ir_impl(text):
    """concatenation of the `impl IR {` blocks"""
    out, pos = [], 0
    while True:
        m = re.compile(r"\nimpl\s+IR\s*\{").search(text, pos)
        if not m:
            break
        i = m.end() - 1
        j = match_brace(text, i)
        out.append(text[i + 1:j])
        pos = j
    if not out:
        raise TranslateError("no `impl IR {` block in ir/mod.rs")
    return "\n".join(out)


def main():
    text = src("lib/src/compiler/ir/mod.rs")
    impl = ir_impl(text)
    fa = strip_comments(fn_body(impl, "fold_arithmetic", "IR::fold_arithmetic"))
    flat = re.sub(r"\s+", " ", fa)

    int_to_f64 = re.search(r"Integer\s*\{[^}]*\}\s*=>\s*v\s+as\s+f64", flat) is not None
    back_to_i64 = re.search(r"const_integer_from\(\s*folded\s+as\s+i64\s*\)", flat) is not None
    # checked i64 folding: either checked_* calls in the body, or an integer closure
    # `FnMut(i64, i64) -> Option<i64>` applied with try_fold in the `!is_float` branch
    sig = re.sub(r"\s+", " ", strip_comments(impl[impl.index("fn fold_arithmetic"):impl.index("fn fold_arithmetic") + 600]))
    closure_checked = (re.search(r"FnMut\(i64, i64\) -> Option<i64>", sig) is not None and
                       re.search(r"if !is_float \{.*?values\.try_fold\(first, i\) \{ Some\(folded\) => \{? ?Ok\(Some\(TypeValue::const_integer_from\(folded\)\)\) \}? ?,? None => Err\(Error::NumberOutOfRange\),? \}", flat) is not None)
    checked = "checked_" in flat or closure_checked
    if int_to_f64 and back_to_i64:
        via_f64 = True
    elif not back_to_i64 and checked:
        # the integer result no longer comes out of the f64 accumulator (integers may still be
        # converted to f64 for float arithmetic)
        via_f64 = False
    else:
        raise TranslateError("fold_arithmetic: cannot tell whether integers are folded through f64 "
                             f"(v as f64: {int_to_f64}, folded as i64: {back_to_i64}, checked_*: {checked})")

    lo, hi = INT_NAMES["i64::MIN"], INT_NAMES["i64::MAX"]
    if via_f64:
        m = re.search(r"folded\s*>=\s*([A-Za-z0-9_:]+)\s+as\s+f64\s*&&\s*folded\s*<=\s*([A-Za-z0-9_:]+)\s+as\s+f64", flat)
        if not m:
            raise TranslateError("fold_arithmetic: range test `folded >= X as f64 && folded <= Y as f64` not found")
        try:
            lo, hi = INT_NAMES[m.group(1)], INT_NAMES[m.group(2)]
        except KeyError as e:
            raise TranslateError(f"fold_arithmetic: unknown bound {e} in the range test")
        if "NumberOutOfRange" not in flat:
            raise TranslateError("fold_arithmetic: the out-of-range branch no longer returns NumberOutOfRange")

    flags = {}
    for name, expect in EXPECT_FOLDING.items():
        body = strip_comments(fn_body(impl, name, f"IR::{name}"))
        has = "self.constant_folding" in body
        if has != expect:
            raise TranslateError(f"IR::{name}: {'now' if has else 'no longer'} guarded by self.constant_folding; "
                                 "the folding rules of Opt/Fold.v must be revised")
        flags[name] = has
    uses = {}
    for name, op in CLOSURES.items():
        body = re.sub(r"\s+", " ", strip_comments(fn_body(impl, name, f"IR::{name}")))
        m = re.search(r"self\.fold_arithmetic\(\s*operands\.as_slice\(\)\s*,\s*is_float\s*,\s*\|acc,\s*x\|\s*acc\s*(\S)\s*x\s*,?\s*(?:(?:\|acc,\s*x\|\s*acc\.checked_|i64::checked_)(add|sub|mul)(?:\(x\))?\s*,?\s*)?\)", body)
        if not m:
            if "fold_arithmetic" in body or "checked_" in body:
                raise TranslateError(f"IR::{name}: call of fold_arithmetic has an unexpected shape")
            uses[name] = False
        else:
            if m.group(1) != op:
                raise TranslateError(f"IR::{name}: folding closure is `acc {m.group(1)} x`, expected `acc {op} x`")
            if m.group(2) and m.group(2) != name:
                raise TranslateError(f"IR::{name}: integer folding closure is checked_{m.group(2)}")
            uses[name] = True
            if not via_f64 and closure_checked and not m.group(2):
                raise TranslateError(f"IR::{name}: no checked integer closure passed to fold_arithmetic")
    for name in ("div", "modulus"):
        if "fold_arithmetic" in fn_body(impl, name):
            raise TranslateError(f"IR::{name} now folds; Opt/Fold.v does not model it")

    # shl / shr: the `rhs_val >= 0` guard and the `>= 64 -> 0` rule
    for name, opx in (("shl", "<<"), ("shr", ">>")):
        body = re.sub(r"\s+", " ", strip_comments(fn_body(impl, name)))
        if not re.search(r"rhs_val\s*>=\s*0", body) or not re.search(r"if\s+rhs_val\s*>=\s*64\s*\{\s*0\s*\}\s*else\s*\{\s*lhs_val\s*" + re.escape(opx) + r"\s*rhs_val\s*\}", body):
            raise TranslateError(f"IR::{name}: folding rule `rhs_val >= 0 && (if rhs_val >= 64 {{0}} else {{lhs_val {opx} rhs_val}})` not found")
    body = re.sub(r"\s+", " ", strip_comments(fn_body(impl, "minus")))
    if re.search(r"const_integer_from\(\s*v\.wrapping_neg\(\)\s*,?\s*\)", body):
        minus_wraps = True
    elif re.search(r"const_integer_from\(\s*-v\s*\)", body):
        minus_wraps = False          # plain `-v`: overflow panic on i64::MIN when overflow checks are on
    else:
        raise TranslateError("IR::minus: neither `const_integer_from(-v)` nor `const_integer_from(v.wrapping_neg())` found")

    b = lambda x: "true" if x else "false"
    out = f"""(* GENERATED by translate/gen_fold.py from lib/src/compiler/ir/mod.rs
   -- do not edit; regenerated on every check. *)
From Coq Require Import ZArith.
Local Open Scope Z_scope.

(* fold_arithmetic reduces integer constants through f64 (v as f64 ... folded as i64) *)
Definition fold_via_f64 : bool := {b(via_f64)}.

(* range test after the reduction: folded >= range_lo_int as f64 && folded <= range_hi_int as f64 *)
Definition range_lo_int : Z := ({lo}).
Definition range_hi_int : Z := {hi}.

(* IR::add / sub / mul call fold_arithmetic with |acc, x| acc OP x *)
Definition add_uses_fold_arithmetic : bool := {b(uses['add'])}.
Definition sub_uses_fold_arithmetic : bool := {b(uses['sub'])}.
Definition mul_uses_fold_arithmetic : bool := {b(uses['mul'])}.

(* IR::minus folds `-v` with wrapping_neg (false: plain `-v`, which panics on i64::MIN
   when overflow checks are on) *)
Definition minus_wraps : bool := {b(minus_wraps)}.

(* comparison constructors (eq ne lt le gt ge) are not folded *)
Definition comparisons_folded : bool := {b(any(flags[n] for n in ('eq', 'ne', 'lt', 'le', 'gt', 'ge')))}.
"""
    write_if_changed("FoldGen.v", out)


if __name__ == "__main__":
    main()
