#!/usr/bin/env python3
"""Gen/Grammar.v from the yara-x parser sources (C10, C09).

* `enum SyntaxKind` (parser/src/cst/syntax_kind.rs) and `enum TokenId`
  (parser/src/tokenizer/tokens.rs): name <-> discriminant tables;
* `SyntaxKind::token_id`, `impl From<&Token> for SyntaxKind`, `Token::is_trivia`;
* the initial `fuel` of ParserImpl;
* the grammar section of parser/src/parser/mod.rs (`impl ParserImpl<'_> { fn x(&mut self) ->
  &mut Self { self.begin(..)...end() } }`): every function whose body is one method chain of
  the combinator DSL becomes a `prog` of Parser/Machine.v;
* `top_level_item`, the only function with hand-written control flow, is compared with a
  fixed template and yields the dispatch table and the stop set of the engine primitive.

Anything that does not have the expected shape raises TranslateError.
"""
import re, json, os
from tlib import *

SK = "parser/src/cst/syntax_kind.rs"
TK = "parser/src/tokenizer/tokens.rs"
PM = "parser/src/parser/mod.rs"


def enum_variants(text, name, what):
    body, _, _ = block_after(text, r"\benum\s+" + name + r"\s*\{", what)
    body = strip_comments(body)
    body = re.sub(r"#\[[^\]]*\]", "", body)
    names = []
    for part in body.split(","):
        part = part.strip()
        if not part:
            continue
        m = re.fullmatch(r"([A-Za-z_][A-Za-z_0-9]*)", part)
        if not m:
            raise TranslateError(f"{what}: variant with payload or explicit discriminant: {part[:60]!r}")
        names.append(m.group(1))
    if len(names) < 10 or len(set(names)) != len(names):
        raise TranslateError(f"{what}: unexpected variant list")
    return names


def match_arms(body, lhs_re, rhs_re, what):
    """`LHS => RHS,` arms (LHS may be A | B). lhs_re has exactly one capture group."""
    out = []
    body = strip_comments(body)
    lhs_nc = lhs_re.replace("(", "(?:", 1) if not lhs_re.startswith("(?:") else lhs_re
    # escaped parens `\(` in lhs_re must stay: only the first *unescaped* "(" is the capture group
    idx = [i for i in range(len(lhs_re)) if lhs_re[i] == "(" and (i == 0 or lhs_re[i - 1] != "\\")][0]
    lhs_nc = lhs_re[:idx] + "(?:" + lhs_re[idx + 1:]
    for m in re.finditer(r"(?P<lhs>" + lhs_nc + r"(?:\s*\|\s*" + lhs_nc + r")*)\s*=>\s*(?P<rhs>" + rhs_re + r")\s*,", body):
        for l in re.findall(lhs_re, m.group("lhs")):
            out.append((l, m.group("rhs")))
    if not out:
        raise TranslateError(f"{what}: no match arms found")
    return out


# ---------------------------------------------------------------- the DSL parser
class P:
    def __init__(self, s, fn):
        self.s, self.i, self.fn = s, 0, fn

    def err(self, msg):
        raise TranslateError(f"grammar fn {self.fn}: {msg} at ...{self.s[self.i:self.i+70]!r}")

    def ws(self):
        while self.i < len(self.s) and self.s[self.i].isspace():
            self.i += 1

    def lit(self, t):
        self.ws()
        if self.s.startswith(t, self.i):
            self.i += len(t); return True
        return False

    def need(self, t):
        if not self.lit(t): self.err(f"expected {t!r}")

    def ident(self):
        self.ws()
        m = re.compile(r"[A-Za-z_][A-Za-z_0-9]*").match(self.s, self.i)
        if not m: self.err("identifier expected")
        self.i = m.end(); return m.group(0)

    def tokenset(self):
        self.ws()
        if not self.lit("t!"): self.err("t!(..) expected")
        self.ws()
        close = {"(": ")", "[": "]"}.get(self.s[self.i])
        if not close: self.err("t! delimiter")
        self.i += 1
        kinds = [self.ident()]
        while self.lit("|"):
            kinds.append(self.ident())
        self.need(close)
        return kinds

    def closure(self):
        """|p| chain   |   |p| { chain }   |   Self::name"""
        self.ws()
        if self.lit("Self::"):
            return [("call", self.ident())]
        self.need("|"); v = self.ident(); self.need("|")
        braces = self.lit("{")
        c = self.chain(v)
        if braces:
            self.lit(";")
            self.need("}")
        return c

    def chain(self, var):
        """var(.method(args))*  -> list of ops"""
        self.ws()
        if self.ident() != var: self.err(f"chain must start with `{var}`")
        ops = []
        while self.lit("."):
            m = self.ident()
            self.need("(")
            if m in ("begin",):
                ops.append(("begin", self.ident()))
            elif m in ("end", "begin_alt", "end_alt", "enter_hex_pattern_mode", "enter_hex_jump_mode"):
                ops.append((m,))
            elif m in ("expect", "opt_expect", "recover"):
                ops.append((m, self.tokenset()))
            elif m == "expect_d":
                ts = self.tokenset(); self.need(",")
                # description: DESC | Some("..") | None  (messages only)
                self.ws()
                dm = re.compile(r'DESC|None|Some\(\s*"[^"]*"\s*\)').match(self.s, self.i)
                if not dm: self.err("expect_d description")
                self.i = dm.end()
                ops.append(("expect", ts))
            elif m in ("opt", "not", "zero_or_more", "one_or_more", "then", "alt"):
                ops.append((m, self.closure()))
            elif m == "n_or_more":
                self.ws(); nm = re.compile(r"\d+").match(self.s, self.i)
                if not nm: self.err("n_or_more count")
                self.i = nm.end(); self.need(",")
                ops.append(("n_or_more", int(nm.group(0)), self.closure()))
            elif m in ("if_next", "cond"):
                ts = self.tokenset(); self.need(",")
                ops.append((m, ts, self.closure()))
            elif m == "cached":
                k = self.ident(); self.need(",")
                ops.append(("cached", k, self.closure()))
            else:
                # direct call of another grammar function: p.expr()
                ops.append(("call", m))
            self.lit(",")
            self.need(")")
        return ops


class Ctx:
    def __init__(self, kinds, fns, kind_tid):
        self.kinds, self.fns, self.kind_tid = kinds, fns, kind_tid
        self.used = set()

    def ts(self, ts, fn):
        for k in ts:
            if k not in self.kinds:
                raise TranslateError(f"grammar fn {fn}: unknown SyntaxKind {k} in token set")
            if k not in self.kind_tid:
                raise TranslateError(f"grammar fn {fn}: {k} in a token set has no token_id()")
        return "[" + "; ".join("K." + k for k in ts) + "]"

    def kind(self, k, fn):
        if k not in self.kinds:
            raise TranslateError(f"grammar fn {fn}: unknown SyntaxKind {k}")
        return "K." + k

    def seq(self, progs):
        return progs[0] if len(progs) == 1 else "PSeq [" + "; ".join(progs) + "]"

    def build(self, ops, fn):
        """ops of one chain -> Gallina prog; begin/end and begin_alt/end_alt must nest"""
        stack = [("root", None, [])]
        for op in ops:
            t = op[0]
            top = stack[-1]
            if t == "begin":
                stack.append(("node", self.kind(op[1], fn), []))
            elif t == "end":
                if top[0] != "node": raise TranslateError(f"grammar fn {fn}: end() without begin()")
                stack.pop(); stack[-1][2].append(f"PNode {top[1]} ({self.seq(top[2]) if top[2] else 'PSeq []'})")
            elif t == "begin_alt":
                stack.append(("alt", None, []))
            elif t == "alt":
                if top[0] != "alt": raise TranslateError(f"grammar fn {fn}: alt() outside begin_alt()")
                top[2].append(self.build(op[1], fn))
            elif t == "end_alt":
                if top[0] != "alt": raise TranslateError(f"grammar fn {fn}: end_alt() without begin_alt()")
                stack.pop(); stack[-1][2].append("PAlt [" + "; ".join(top[2]) + "]")
            else:
                if top[0] == "alt": raise TranslateError(f"grammar fn {fn}: {t} between begin_alt and end_alt")
                top[2].append(self.atom(op, fn))
        if len(stack) != 1:
            raise TranslateError(f"grammar fn {fn}: unbalanced begin/end or begin_alt/end_alt")
        items = stack[0][2]
        if not items: raise TranslateError(f"grammar fn {fn}: empty chain")
        return self.seq(items)

    def atom(self, op, fn):
        t = op[0]
        if t == "expect": return f"PExpect {self.ts(op[1], fn)}"
        if t == "opt_expect": return f"POptExpect {self.ts(op[1], fn)}"
        if t == "recover": return f"PRecover {self.ts(op[1], fn)}"
        if t == "opt": return f"POpt ({self.build(op[1], fn)})"
        if t == "not": return f"PNot ({self.build(op[1], fn)})"
        if t == "then": return f"PThen ({self.build(op[1], fn)})"
        if t == "zero_or_more": return f"PNOrMore 0 ({self.build(op[1], fn)})"
        if t == "one_or_more": return f"PNOrMore 1 ({self.build(op[1], fn)})"
        if t == "n_or_more": return f"PNOrMore {op[1]} ({self.build(op[2], fn)})"
        if t == "if_next": return f"PIfNext {self.ts(op[1], fn)} ({self.build(op[2], fn)})"
        if t == "cond": return f"PCond {self.ts(op[1], fn)} ({self.build(op[2], fn)})"
        if t == "cached": return f"PCached {self.kind(op[1], fn)} ({self.build(op[2], fn)})"
        if t == "enter_hex_pattern_mode": return "PEnterHexPattern"
        if t == "enter_hex_jump_mode": return "PEnterHexJump"
        if t == "call":
            if op[1] not in self.fns:
                raise TranslateError(f"grammar fn {fn}: call of unknown grammar function {op[1]}")
            self.used.add(op[1])
            return f"PCall NT_{op[1]}"
        raise TranslateError(f"grammar fn {fn}: unhandled op {t}")


TOP_LEVEL_TEMPLATE = (
    "let token = match self.peek() { Some(token) => token, None => { self.set_state(State::Failure); return self; } }; "
    "match token { @DISPATCH@ token => { let span = token.span(); "
    "self.output.push_error( \"expecting import statement or rule definition\", span, ); "
    "self.output.begin(ERROR); "
    "while let Some(token) = self.peek_non_trivia() { if matches!( token, @STOP@ ) { break; } self.trivia(); self.bump(); } "
    "self.output.end(); self.set_state(State::Failure); self } }")


def norm(s):
    return re.sub(r"\s+", " ", strip_comments(s)).strip()


def top_level(body, fns, tids):
    n = norm(body)
    m = re.match(r"^(.*?match token \{ )(.*?)( token => \{.*matches!\( token, )(.*?)( \) \{ break; \}.*)$", n)
    if not m:
        raise TranslateError("top_level_item: shape changed (cannot locate dispatch arms / stop set)")
    rebuilt = m.group(1) + "@DISPATCH@" + m.group(3) + "@STOP@" + m.group(5)
    if rebuilt != TOP_LEVEL_TEMPLATE:
        raise TranslateError("top_level_item: body differs from the template the engine primitive models:\n" + rebuilt)
    dispatch = []
    arms = m.group(2)
    pos = 0
    arm_re = re.compile(r"\s*((?:Token::[A-Z_0-9]+\(_\)\s*\|?\s*)+)=>\s*(?:\{\s*)?self\.([a-z_0-9]+)\(\)\s*(?:\})?\s*,?")
    while pos < len(arms.strip()) and arms[pos:].strip():
        am = arm_re.match(arms, pos)
        if not am:
            raise TranslateError("top_level_item: dispatch arm not understood: " + arms[pos:pos + 80])
        for t in re.findall(r"Token::([A-Z_0-9]+)\(_\)", am.group(1)):
            if t not in tids: raise TranslateError(f"top_level_item: unknown token {t}")
            if am.group(2) not in fns: raise TranslateError(f"top_level_item: unknown grammar fn {am.group(2)}")
            dispatch.append((t, am.group(2)))
        pos = am.end()
    stop = re.findall(r"Token::([A-Z_0-9]+)\(_\)", m.group(4))
    if not dispatch or not stop or re.sub(r"Token::[A-Z_0-9]+\(_\)|[\s|]", "", m.group(4)):
        raise TranslateError("top_level_item: empty dispatch table or stop set")
    return dispatch, stop


def main():
    sk, tk, pm = src(SK), src(TK), src(PM)
    kinds = enum_variants(sk, "SyntaxKind", "enum SyntaxKind")
    tids = enum_variants(tk, "TokenId", "enum TokenId")
    tokvars = re.findall(r"^\s*([A-Z_0-9]+)\(Span\)\s*=\s*TokenId::([A-Z_0-9]+)\s+as\s+u8\s*,", strip_comments(block_after(tk, r"\benum\s+Token\s*\{", "enum Token")[0]), re.M)
    if sorted(v for v, _ in tokvars) != sorted(tids) or any(a != b for a, b in tokvars):
        raise TranslateError("enum Token: variants are not exactly `X(Span) = TokenId::X as u8` for every TokenId")

    kt = dict()
    for k, t in match_arms(fn_body(sk, "token_id"), r"SyntaxKind::([A-Z_0-9]+)", r"TokenId::[A-Z_0-9]+", "SyntaxKind::token_id"):
        t = t.split("::")[1]
        if k not in kinds or t not in tids or k in kt: raise TranslateError(f"token_id: bad arm {k} => {t}")
        kt[k] = t
    frm = block_after(sk, r"impl\s+From<&Token>\s+for\s+SyntaxKind\s*\{", "impl From<&Token> for SyntaxKind")[0]
    tkk = dict()
    for t, k in match_arms(fn_body(frm, "from"), r"Token::([A-Z_0-9]+)\(_\)", r"SyntaxKind::[A-Z_0-9]+", "From<&Token>"):
        k = k.split("::")[1]
        if k not in kinds or t not in tids or t in tkk: raise TranslateError(f"From<&Token>: bad arm {t} => {k}")
        tkk[t] = k
    if set(tkk) != set(tids):
        raise TranslateError("From<&Token> for SyntaxKind does not cover every token")
    # the two tables must agree wherever both are defined (the harness recovers token ids from kinds)
    for t, k in tkk.items():
        if k in kt and kt[k] != t:
            raise TranslateError(f"token_id(From({t})) = {kt[k]} != {t}")
    tm = re.search(r"fn\s+is_trivia\s*\(&self\)\s*->\s*bool\s*\{\s*matches!\(\s*self\s*,([^)]*(?:\(_\)[^)]*)*)\)\s*\}", strip_comments(tk))
    if not tm: raise TranslateError("Token::is_trivia: shape changed")
    trivia = re.findall(r"Token::([A-Z_0-9]+)\(_\)", tm.group(1))
    if not trivia or any(t not in tids for t in trivia) or re.sub(r"Token::[A-Z_0-9]+\(_\)|[\s|]", "", tm.group(1)):
        raise TranslateError("Token::is_trivia: unexpected pattern")
    fm = re.search(r"\bfuel\s*:\s*([0-9_]+)\s*,", strip_comments(block_after(pm, r"impl<'src>\s+From<Tokenizer<'src>>\s+for\s+ParserImpl<'src>\s*\{", "ParserImpl::from")[0]))
    if not fm: raise TranslateError("ParserImpl::from: initial fuel not found")
    fuel = int(fm.group(1).replace("_", ""))
    # the fuel is per file: decremented by one in begin(), never given back
    pm_nc = strip_comments(pm)
    uses = re.findall(r"self\.fuel\b[^;{]*", pm_nc)
    dec = re.search(r"if let Some\(fuel\) = self\.fuel\.checked_sub\(1\) \{\s*self\.fuel = fuel;\s*\} else \{\s*self\.state = State::OutOfFuel;\s*\}", pm_nc)
    if not dec or len(uses) != 2:
        raise TranslateError(f"parser fuel: expected exactly `if let Some(fuel) = self.fuel.checked_sub(1) {{ self.fuel = fuel; }} else {{ self.state = State::OutOfFuel; }}` (in begin) and no other use of self.fuel; found {uses}")
    begin_body = strip_comments(fn_body(pm, "begin"))
    if "self.fuel.checked_sub(1)" not in begin_body:
        raise TranslateError("parser fuel: the decrement is no longer in ParserImpl::begin")

    # grammar section: the impl block that follows the `t!` macro
    mi = pm.find("macro_rules! t {")
    if mi < 0: raise TranslateError("macro t! not found")
    gbody, gs, ge = block_after(pm, r"impl\s+ParserImpl<'_>\s*\{", "grammar impl block", start=mi)
    gbody_nc = strip_comments(gbody)
    fns = {}
    pos = 0
    fn_re = re.compile(r"\bfn\s+([a-z_0-9]+)\s*\(\s*&mut\s+self\s*\)\s*->\s*&mut\s+Self\s*\{")
    while True:
        m = fn_re.search(gbody_nc, pos)
        if not m: break
        j = match_brace(gbody_nc, m.end() - 1)
        fns[m.group(1)] = gbody_nc[m.end():j]
        pos = j + 1
    rest = fn_re.sub("", gbody_nc)
    if len(re.findall(r"\bfn\s", gbody_nc)) != len(fns):
        raise TranslateError("grammar impl block: a function with an unexpected signature")
    if "top_level_item" not in fns or len(fns) < 20:
        raise TranslateError("grammar impl block: functions missing")

    dispatch, stop = top_level(fns["top_level_item"], fns, tids)
    ctx = Ctx(set(kinds), set(fns) - {"top_level_item"}, kt)
    progs = {}
    for name, body in fns.items():
        if name == "top_level_item": continue
        b = re.sub(r"^\s*const\s+DESC\s*:\s*Option<&'static\s+str>\s*=\s*Some\(\s*\"[^\"]*\"\s*\)\s*;", "", body)
        p = P(b, name)
        ops = p.chain("self")
        p.ws()
        if p.i != len(p.s):
            p.err("trailing code after the method chain")
        progs[name] = ctx.build(ops, name)
    order = [n for n in fns if n != "top_level_item"]

    L = []
    L.append("(* GENERATED by translate/gen_grammar.py from parser/src/parser/mod.rs,\n   parser/src/cst/syntax_kind.rs and parser/src/tokenizer/tokens.rs -- do not edit;\n   regenerated on every check. *)")
    L.append("From Coq Require Import List NArith Bool.\nFrom YV Require Import Parser.Machine.\nImport ListNotations.\nLocal Open Scope N_scope.\n")
    L.append("(* SyntaxKind discriminants *)\nModule K.")
    for i, k in enumerate(kinds): L.append(f"  Definition {k} : N := {i}.")
    L.append("End K.\n\n(* TokenId discriminants *)\nModule T.")
    for i, t in enumerate(tids): L.append(f"  Definition {t} : N := {i}.")
    L.append("End T.\n")
    L.append(f"Definition num_kinds : N := {len(kinds)}.\nDefinition num_tids : N := {len(tids)}.\n")
    L.append("(* SyntaxKind::token_id *)\nDefinition kind_tid (k : N) : option N :=\n  match k with")
    for i, k in enumerate(kinds):
        if k in kt: L.append(f"  | {i} => Some T.{kt[k]}  (* {k} *)")
    L.append("  | _ => None\n  end.\n")
    L.append("(* impl From<&Token> for SyntaxKind *)\nDefinition tok_kind (t : N) : N :=\n  match t with")
    for i, t in enumerate(tids): L.append(f"  | {i} => K.{tkk[t]}  (* {t} *)")
    L.append("  | _ => K.UNKNOWN\n  end.\n")
    L.append("(* Token::is_trivia *)\nDefinition is_trivia (t : N) : bool := " + " || ".join(f"(t =? T.{t})" for t in trivia) + ".\n")
    L.append("Definition yara_cfg : config := mkConfig kind_tid tok_kind is_trivia K.ERROR K.SOURCE_FILE.\n")
    L.append(f"(* ParserImpl::from: initial fuel. It is per file: one unit is taken by every begin() (nowhere else) and it\n   is never given back, not even between top-level items *)\nDefinition parser_fuel : N := {fuel}.\n")
    L.append("Inductive nonterminal :=\n" + "\n".join(f"| NT_{n}" for n in order) + ".\n")
    L.append("Definition grammar (n : nonterminal) : prog nonterminal :=\n  match n with")
    for n in order:
        L.append(f"  | NT_{n} =>\n      {progs[n]}")
    L.append("  end.\n")
    L.append("(* top_level_item: first token -> grammar function; stop set of its error branch *)")
    L.append("Definition dispatch : list (N * nonterminal) := [" + "; ".join(f"(T.{t}, NT_{f})" for t, f in dispatch) + "].")
    L.append("Definition stop_ids : list N := [" + "; ".join(f"T.{t}" for t in stop) + "].\n")
    L.append("(* the model parser running the real grammar *)\nDefinition yara_parse (toks : list tok) (src_len : N) (rounds f : nat) (fuel0 : N) : result :=\n  parse yara_cfg toks src_len nonterminal grammar dispatch stop_ids rounds f fuel0.")
    write_if_changed("Grammar.v", "\n".join(L) + "\n")
    return {"kinds": kinds, "tids": tids, "kind_tid": kt, "tok_kind": tkk, "trivia": trivia}


if __name__ == "__main__":
    t = main()
    print("kinds", len(t["kinds"]), "tids", len(t["tids"]))
