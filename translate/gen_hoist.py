#!/usr/bin/env python3
"""Gen/HoistGen.v from lib/src/compiler/ir/mod.rs and ir/ast2ir.rs (C03: hoisting
of loop invariants, grouping of `matches` operands).

* Expr variants that OWN variables: a payload struct with a field of type
  ForVars / Var / Vec<Var> / Vec<(Var, ..)>, or an inline `symbol: Box<Symbol>`
  (a Symbol can be a variable);
* the variants for which Expr::shift_vars has an arm (everything else falls into
  `_ => {}`): when hoisting makes room for the hoisted value every variable at or
  above the slot must move, so a variable-owning variant without an arm keeps a
  stale slot;
* the Quantifier variants that carry an expression and the ones whose expression
  dfs_common pushes (hoisting, shift_vars, CSE and hashing only see what it pushes);
* or_expr_from_ast: how the key that decides which `x matches /re/` operands of
  an `or` are merged into one regexp set is computed: `regex_set_key_hashes_whole_lhs`
  is true iff the key is a hash fed with EVERY node of the left operand
  (`for evt in ctx.ir.dfs_iter(*lhs) { .. Hash::hash(expr, &mut hasher) }`).
"""
import re
from tlib import *


def enum_variants(text):
    m = re.search(r"pub\(crate\) enum Expr \{", text)
    if not m:
        raise TranslateError("enum Expr not found")
    j = match_brace(text, m.end() - 1)
    body = strip_comments(text[m.end():j])
    out = []
    for vm in re.finditer(r"(?m)^\s*([A-Z][A-Za-z0-9]*)\s*(\(([^)]*)\)|\{([^}]*)\})?\s*,", body):
        out.append((vm.group(1), vm.group(3), vm.group(4)))
    if len(out) < 30:
        raise TranslateError(f"enum Expr: only {len(out)} variants recognised")
    return out


def struct_fields(text, name):
    m = re.search(r"pub\(crate\) struct " + name + r"\s*\{", text)
    if not m:
        return None
    j = match_brace(text, m.end() - 1)
    return strip_comments(text[m.end():j])


VAR_FIELD = re.compile(r":\s*(ForVars|Var|Vec<Var>|Vec<\(Var,[^)]*\)>)\s*,")


def main():
    text = src("lib/src/compiler/ir/mod.rs")
    owning = []
    for name, tup, rec in enum_variants(text):
        if rec is not None and re.search(r"symbol\s*:\s*Box<Symbol>", rec):
            owning.append(name); continue
        if tup is not None:
            t = tup.strip()
            if t == "Box<Symbol>":
                owning.append(name); continue
            bm = re.fullmatch(r"Box<([A-Za-z0-9]+)>", t)
            if bm:
                f = struct_fields(text, bm.group(1))
                if f is None:
                    raise TranslateError(f"struct {bm.group(1)} (payload of Expr::{name}) not found")
                if VAR_FIELD.search(f + ","):
                    owning.append(name)
    if not owning:
        raise TranslateError("no variable-owning Expr variant found")
    impl = text[text.index("impl Expr {"):]
    sv = strip_comments(fn_body(impl, "shift_vars", "Expr::shift_vars"))
    mm = re.search(r"match self \{", sv)
    if not mm:
        raise TranslateError("Expr::shift_vars: `match self {` not found")
    arms_body = sv[mm.end():match_brace(sv, mm.end() - 1)]
    arms = sorted(set(re.findall(r"Expr::([A-Za-z0-9]+)", arms_body)))
    if not re.search(r"_\s*=>\s*\{\s*\}", arms_body):
        raise TranslateError("Expr::shift_vars: catch-all arm `_ => {}` not found")

    a2i = strip_comments(src("lib/src/compiler/ir/ast2ir.rs"))
    oe = re.sub(r"\s+", " ", fn_body(a2i, "or_expr_from_ast"))
    if "matches_by_lhs" not in oe or "matches_regex_set" not in oe:
        raise TranslateError("or_expr_from_ast: grouping of `matches` operands not found")
    whole = re.search(r"let mut hasher = FxHasher::default\(\); for evt in ctx\.ir\.dfs_iter\(\*lhs\) \{ if let dfs::Event::Enter\(\(_, expr, _\)\) = evt \{ Hash::hash\(expr, &mut hasher\); \} \} let lhs_expr_hash = hasher\.finish\(\);", oe) is not None
    if not re.search(r"matches_by_lhs \.entry\(lhs_expr_hash\) \.or_default\(\) \.push\(", oe):
        raise TranslateError("or_expr_from_ast: operands are no longer grouped by `lhs_expr_hash`")
    if not re.search(r"if group\.len\(\) >= 2 \{", oe):
        raise TranslateError("or_expr_from_ast: `if group.len() >= 2` not found")
    if not re.search(r"let first_lhs = group\[0\]\.1; let multimatch = ctx\.ir\.matches_regex_set\(first_lhs, set_id\);", oe):
        raise TranslateError("or_expr_from_ast: the set is no longer evaluated on the first left operand of the group")

    # Quantifier variants that carry an expression, and the ones whose expression dfs_common visits
    qm = re.search(r"pub\(crate\) enum Quantifier \{", text)
    if not qm:
        raise TranslateError("enum Quantifier not found")
    qbody = strip_comments(text[qm.end():match_brace(text, qm.end() - 1)])
    q_expr = [m.group(1) for m in re.finditer(r"([A-Z][A-Za-z0-9]*)\s*\(\s*ExprId\s*\)", qbody)]
    if not q_expr:
        raise TranslateError("enum Quantifier: no variant with an ExprId payload")
    dfs = strip_comments(src("lib/src/compiler/ir/dfs.rs"))
    dc = fn_body(dfs, "dfs_common")
    pm = re.search(r"let push_quantifier\s*=\s*\|quantifier: &Quantifier, stack: &mut Vec<_>\| match quantifier \{", dc)
    if not pm:
        raise TranslateError("dfs_common: closure push_quantifier not found")
    pq = dc[pm.end():match_brace(dc, pm.end() - 1)]
    q_trav = []
    for am in re.finditer(r"((?:Quantifier::[A-Za-z0-9]+(?:\([a-z_]+\))?\s*\|?\s*)+)=>\s*\{([^}]*)\}", pq):
        names = re.findall(r"Quantifier::([A-Za-z0-9]+)\(([a-z_]+)\)", am.group(1))
        for (vn, binder) in names:
            if binder != "_" and re.search(r"stack\.push\(Event::Enter\(\(\*" + binder + r"\b", am.group(2)):
                q_trav.append(vn)
    if not q_trav:
        raise TranslateError("dfs_common: push_quantifier visits no quantifier expression")

    q = lambda l: "; ".join('"%s"' % x for x in l)
    out = f"""(* GENERATED by translate/gen_hoist.py from lib/src/compiler/ir/mod.rs and ir/ast2ir.rs
   -- do not edit; regenerated on every check. *)
From Coq Require Import String List.
Import ListNotations.
Local Open Scope string_scope.

(* Expr variants whose payload holds variables (ForVars / Var / Symbol) *)
Definition var_owning_variants : list string := [{q(owning)}].
(* Expr variants with an arm in Expr::shift_vars *)
Definition shift_vars_arms : list string := [{q(arms)}].

(* Quantifier variants with an expression; the ones whose expression dfs_common pushes *)
Definition quantifier_expr_variants : list string := [{q(q_expr)}].
Definition quantifier_traversed_variants : list string := [{q(sorted(set(q_trav)))}].

(* or_expr_from_ast: the grouping key of `x matches /re/` operands hashes every node of x *)
Definition regex_set_key_hashes_whole_lhs : bool := {'true' if whole else 'false'}.
"""
    write_if_changed("HoistGen.v", out)


if __name__ == "__main__":
    main()
