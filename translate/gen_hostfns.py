#!/usr/bin/env python3
"""Gen/HostFns.v from lib/src/wasm/mod.rs, lib/src/wasm/string.rs, lib/src/scanner/matches.rs, the math / hash /
string / console modules and lib/src/compiler/emit.rs.

For every `#[wasm_export]` function of wasm/mod.rs (macro-generated ones are expanded with
a small macro_rules interpreter) and every `#[module_export]` function of the listed
modules that takes i64 / i32 arguments: its name, the argument types, and for each integer
argument the ordered list of its syntactic uses in the body, classified as

  TryIntoUnwrap t   x.try_into().unwrap() | T::try_from(x).unwrap() | .expect(..)
  TryIntoOk t       x.try_into().ok()?    | T::try_from(x).ok()?
  TryIntoOr t       x.try_into().unwrap_or(..)
  AsCast t          x as T
  Checked           checked_* / saturating_* / wrapping_* / overflowing_*
  Compared          comparison, match scrutinee, range containment test
  GuardNonNeg       `if x < 0 { return .. }` / `if x.is_negative() { return .. }`
  AssertPos         assert!(x > 0)
  UncheckedArith    + - * on the argument (or on its converted binding) without checked_/wrapping_
  UncheckedAbs      x.abs()
  LookupUnwrap      coll.get_index(x as usize) ... .unwrap()
  Passed / Formatted

Calls to helper functions defined in the same file (lookup_field, data_range, get_data) and
to MatchList::matches_in_range are followed: the uses inside the helper are appended.
A use that fits none of the shapes raises TranslateError.

Also generated: `div_guards` (which of emit.rs's integer division / remainder instructions
are preceded by throw_undef_if_zero, and whether a guard against i64::MIN / -1 exists),
`shift_guard`, the instruction used by percentage quantifiers, the list of emitter-controlled
arguments (with the emit.rs shape that justifies each), and the known-unsafe allow-list read
from known_findings.jsonl (entries with a "host_arg" field).
"""
import re, os, json
from tlib import *

WASM = "lib/src/wasm/mod.rs"
MATCHES = "lib/src/scanner/matches.rs"
EMIT = "lib/src/compiler/emit.rs"
MODULES = [("math", "lib/src/modules/math.rs"), ("hash", "lib/src/modules/hash/mod.rs"),
           ("string", "lib/src/modules/string.rs"), ("console", "lib/src/modules/console.rs")]

ITY = {"i8": "I8", "i16": "I16", "i32": "I32", "i64": "I64", "isize": "ISize",
       "u8": "U8", "u16": "U16", "u32": "U32", "u64": "U64", "usize": "USize"}
SIZEOF = {"u8": 1, "i8": 1, "u16": 2, "i16": 2, "u32": 4, "i32": 4, "f32": 4, "u64": 8, "i64": 8, "f64": 8}
IDENT = r"[A-Za-z_][A-Za-z_0-9]*"


# ------------------------------------------------------------------ preprocessing
def strip_verif_hooks(s, what):
    """remove `#[cfg(yara_x_verif)] <statement>;` (add-only hooks of the verification
    harness); the removed statement must not mention an integer argument (checked later by
    the caller through `hook_texts`)."""
    out, hooks, i = [], [], 0
    pat = re.compile(r"#\[cfg\(yara_x_verif\)\]\s*")
    while True:
        m = pat.search(s, i)
        if not m:
            out.append(s[i:]); break
        out.append(s[i:m.start()])
        j = m.end()
        # statement: up to the ';' at bracket depth 0, or a whole block
        depth = 0
        k = j
        while k < len(s):
            c = s[k]
            if c in "([{": depth += 1
            elif c in ")]}":
                depth -= 1
                if depth == 0 and c == "}" and s[j:k].lstrip().startswith(("{", "pub mod", "mod", "fn", "pub fn", "pub(crate) fn", "impl")):
                    k += 1; break
            elif c == ";" and depth == 0:
                k += 1; break
            k += 1
        hooks.append(s[j:k])
        i = k
    return "".join(out), hooks


def split_top(s, sep=",", angle=False):
    """split at top-level separators; angle=True also nests on < > (type positions)"""
    parts, depth, cur = [], 0, ""
    i = 0
    while i < len(s):
        c = s[i]
        if c == '"':
            j = i + 1
            while j < len(s) and s[j] != '"':
                j += 2 if s[j] == "\\" else 1
            cur += s[i:j + 1]; i = j + 1; continue
        if c in "([{" or (angle and c == "<"):
            depth += 1
        elif c in ")]}" or (angle and c == ">" and s[i - 1:i] != "-"):
            depth -= 1
        if c == sep and depth == 0:
            parts.append(cur); cur = ""
        else:
            cur += c
        i += 1
    if cur.strip():
        parts.append(cur)
    return [p.strip() for p in parts]


def expand_macros(text):
    """expand the `macro_rules!` definitions whose arms contain #[wasm_export]: returns the
    text with macro definitions removed and every invocation replaced by its expansion."""
    macros = {}
    out, i = [], 0
    for m in re.finditer(r"macro_rules!\s+(" + IDENT + r")\s*\{", text):
        pass
    pos = 0
    res = ""
    while True:
        m = re.compile(r"macro_rules!\s+(" + IDENT + r")\s*\{").search(text, pos)
        if not m:
            res += text[pos:]; break
        res += text[pos:m.start()]
        j = match_brace(text, m.end() - 1)
        body = text[m.end():j]
        arms = []
        k = 0
        while True:
            am = re.compile(r"\(").search(body, k)
            if not am: break
            pe = match_brace(body, am.start(), "(", ")")
            pat = body[am.start() + 1:pe]
            rm = re.compile(r"\s*=>\s*\{").match(body, pe + 1)
            if not rm:
                if "#[wasm_export" in body:
                    raise TranslateError(f"macro {m.group(1)}: arm without `=> {{`")
                arms = []; break
            be = match_brace(body, rm.end() - 1)
            arms.append((split_top(pat), body[rm.end():be]))
            k = be + 1
        if "#[wasm_export" in body:
            macros[m.group(1)] = arms
        else:
            res += text[m.start():j + 1]     # an unrelated macro: left as it is
        pos = j + 1
    text = res

    def expand_call(name, argtext, depth=0):
        if depth > 6:
            raise TranslateError(f"macro {name}: expansion too deep")
        args = split_top(argtext)
        for pats, body in macros[name]:
            if len(pats) != len(args): continue
            binds, ok = {}, True
            for p, a in zip(pats, args):
                pm = re.match(r"\$(" + IDENT + r"):(\w+)$", p)
                if pm: binds[pm.group(1)] = a
                elif p != a: ok = False; break
            if not ok: continue
            b = body
            for k_, v in sorted(binds.items(), key=lambda kv: -len(kv[0])):
                b = re.sub(r"\$" + k_ + r"\b", v.replace("\\", "\\\\"), b)
            return expand_all(b, depth + 1)
        raise TranslateError(f"macro {name}!({argtext[:60]}): no arm matches")

    def expand_all(t, depth=0):
        o, p = "", 0
        rx = re.compile(r"\b(" + "|".join(map(re.escape, macros)) + r")!\s*\(") if macros else None
        while rx:
            mm = rx.search(t, p)
            if not mm: break
            e = match_brace(t, mm.end() - 1, "(", ")")
            o += t[p:mm.start()] + expand_call(mm.group(1), t[mm.end():e], depth)
            p = e + 1
            if t[p:p + 1] == ";": p += 1
        return o + t[p:]
    return expand_all(text)


# ------------------------------------------------------------------ functions
class Fn:
    def __init__(self, name, params, body, export, origin):
        self.name, self.params, self.body, self.export, self.origin = name, params, body, export, origin


def parse_fns(text, origin):
    """every `fn` item of the text (top level or inside impl blocks): name -> Fn"""
    fns = {}
    for m in re.finditer(r"((?:#\[[^\]]*\]\s*)*)(?:pub(?:\([a-z]+\))?\s+)?fn\s+(" + IDENT + r")\s*(<[^>(]*>)?\s*\(", text):
        attrs, name = m.group(1), m.group(2)
        pe = match_brace(text, m.end() - 1, "(", ")")
        params = []
        for p in split_top(text[m.end():pe], angle=True):
            pm = re.match(r"(?:mut\s+)?(" + IDENT + r"|_)\s*:\s*(.+)$", p, re.S)
            if pm: params.append((pm.group(1), re.sub(r"\s+", " ", pm.group(2).strip())))
            elif re.fullmatch(r"&?\s*(?:'[a-z_]+\s+)?(?:mut\s+)?self", p.strip()): pass
            elif p.strip(): raise TranslateError(f"{origin}: fn {name}: cannot parse parameter {p[:40]!r}")
        # body
        k = pe + 1
        depth = 0
        while k < len(text) and not (text[k] == "{" and depth == 0):
            if text[k] == ";" and depth == 0: break
            if text[k] in "(<[": depth += 1
            elif text[k] in ")]" or (text[k] == ">" and text[k - 1] != "-"): depth -= 1
            k += 1
        if k >= len(text) or text[k] != "{": continue
        be = match_brace(text, k)
        export = None
        em = re.search(r"#\[(wasm_export|module_export)(\(([^\]]*)\))?\]", attrs)
        if em:
            export = em.group(1)
            nm = re.search(r'name\s*=\s*"([^"]+)"', em.group(3) or "")
            meth = re.search(r'method_of\s*=\s*"([^"]+)"', em.group(3) or "")
            pub_name = nm.group(1) if nm else name
            if meth: pub_name = meth.group(1) + "::" + pub_name
        f = Fn(name, params, text[k + 1:be], export, origin)
        f.pub_name = pub_name if em else name
        if name in fns and export:
            raise TranslateError(f"{origin}: two exported functions named {name}")
        fns.setdefault(name, f)
    return fns


# ------------------------------------------------------------------ classification
class Use:
    def __init__(self, conv, on_conv=False, binds=False):
        self.conv, self.on_conv, self.binds = conv, on_conv, binds

    def coq(self):
        return f"mkUse ({self.conv}) {str(self.on_conv).lower()} {str(self.binds).lower()}"


def ity_of(t, ctx):
    t = t.strip()
    if t in ITY: return ITY[t]
    raise TranslateError(f"{ctx}: conversion to unsupported type {t!r}")


INT_LIMITS = {"i8": (-2**7, 2**7 - 1), "i16": (-2**15, 2**15 - 1), "i32": (-2**31, 2**31 - 1), "i64": (-2**63, 2**63 - 1), "isize": (-2**63, 2**63 - 1),
              "u8": (0, 2**8 - 1), "u16": (0, 2**16 - 1), "u32": (0, 2**32 - 1), "u64": (0, 2**64 - 1), "usize": (0, 2**64 - 1)}


def or_default(text):
    """the argument of unwrap_or(..) as ` (Some k)` / ` None`"""
    t = text.strip().replace("_", "")
    if re.fullmatch(r"-?\d+", t): return f" (Some ({t}))"
    m = re.fullmatch(r"(" + IDENT + r")::(MAX|MIN)", text.strip())
    if m and m.group(1) in INT_LIMITS:
        return f" (Some ({INT_LIMITS[m.group(1)][1 if m.group(2) == 'MAX' else 0]}))"
    return " None"


def q(s):
    return '"' + s.replace('"', "'") + '"'


def stmt_bounds(body, pos):
    """[start, end) of the statement containing pos (split at ; { } at depth of the position)"""
    s = pos
    depth = 0
    while s > 0:
        c = body[s - 1]
        if c in ")]": depth += 1
        elif c in "([":
            if depth == 0: pass
            depth = max(0, depth - 1)
        if c in ";{}" and depth == 0: break
        s -= 1
    e = pos
    depth = 0
    while e < len(body):
        c = body[e]
        if c in "([": depth += 1
        elif c in ")]": depth -= 1
        if c in ";{" and depth <= 0: break
        if c == "}" and depth <= 0: break
        e += 1
    return s, e


def infer_unannotated_target(body, bound_name, fname, all_fns):
    """target type of `let X = x.try_into().unwrap();` without annotation.  Two narrow rules:
    (1) X is compared with a variable initialised by an unsuffixed integer literal -> i32
        (Rust's integer fallback);  (2) X is passed to a function of the file whose
        parameter type is known."""
    for m in re.finditer(r"\b(" + IDENT + r")\s*(>=|<=|>|<|==|!=)\s*" + re.escape(bound_name) + r"\b", body):
        other = m.group(1)
        lm = re.search(r"let\s+(?:mut\s+)?" + re.escape(other) + r"\s*=\s*(\d+)\s*;", body)
        if lm: return "i32"
        lm = re.search(r"let\s+(?:mut\s+)?" + re.escape(other) + r"\s*:\s*(" + IDENT + r")\s*=", body)
        if lm and lm.group(1) in ITY: return lm.group(1)
    raise TranslateError(f"{fname}: cannot infer the target type of `{bound_name}.try_into().unwrap()`")


def param_type_of_callee(callee, argidx, all_fns, ctx):
    f = all_fns.get(callee)
    if not f or argidx >= len(f.params):
        raise TranslateError(f"{ctx}: cannot find parameter {argidx} of `{callee}` to type a try_into()")
    return f.params[argidx][1]


def call_context(body, pos):
    """if body[pos] is inside the argument list of a call `callee(...)`, returns
    (callee, arg index, '(' position) for the innermost one, else None"""
    depth, k, idx = 0, pos - 1, 0
    while k >= 0:
        c = body[k]
        if c in ")]}": depth += 1
        elif c in "([{":
            if depth == 0:
                if c != "(": return None
                m = re.search(r"([A-Za-z_][A-Za-z_0-9:<>$]*)\s*!?\s*$", body[:k])
                if not m: return ("", idx, k)
                return (m.group(1), idx, k)
            depth -= 1
        elif c == "," and depth == 0: idx += 1
        elif c == ";" and depth == 0: return None
        k -= 1
    return None


def index_context(body, pos):
    """True when body[pos] is inside an index expression `expr[ ... ]` (innermost bracket)"""
    depth, k = 0, pos - 1
    while k >= 0:
        c = body[k]
        if c in ")]}": depth += 1
        elif c in "([{":
            if depth == 0:
                return c == "[" and re.search(r"[A-Za-z0-9_)\]]\s*$", body[:k]) is not None
            depth -= 1
        elif c == ";" and depth == 0: return False
        k -= 1
    return False


def classify_fn(f, all_fns, helpers_followed, extern_follow, sizeof_env=None, depth=0, arg_map=None):
    """returns {argname: [Use]} for the integer params of f (or for arg_map's names when
    following a helper: arg_map maps helper param -> (list to append to, on_conv))"""
    ctx = f"{f.origin}: fn {f.name}"
    body = f.body
    int_params = [(n, t) for n, t in f.params if t in ("i64", "i32")]
    uses = {n: [] for n, _ in int_params}
    # names currently denoting (a conversion of) each argument: name -> (arg, on_conv)
    alias = {n: (n, False) for n, _ in int_params}
    # string-literal-aware scan for identifiers
    tokens = []
    i = 0
    while i < len(body):
        c = body[i]
        if c == '"':
            j = i + 1
            while j < len(body) and body[j] != '"':
                j += 2 if body[j] == "\\" else 1
            for fm in re.finditer(r"\{(" + IDENT + r")(?::[^}]*)?\}", body[i:j + 1]):
                tokens.append((i + fm.start(1), fm.group(1), True))
            i = j + 1; continue
        m = re.compile(IDENT).match(body, i)
        if m and (i == 0 or not (body[i - 1].isalnum() or body[i - 1] == "_")):
            # skip field/method names (`.name`) and paths (`::name`)
            if not (body[i - 1:i] == "." and body[i - 2:i] != "..") and body[i - 2:i] != "::":
                tokens.append((i, m.group(0), False))
            i = m.end(); continue
        i += 1

    cur_pos = [0]
    # the interpreter keeps ONE conversion result per argument: a use through a derived
    # binding must refer to the most recent conversion of that argument
    last_conv = {n: 0 for n, _ in int_params}
    bound_by = {}

    def add(arg, conv, on_conv, binds=False):
        uses[arg].append(Use(conv, on_conv, binds))
        # the value (or its conversion) is used inside `expr[..]`: a panicking index
        if index_context(body, cur_pos[0]) and not conv.startswith(("LookupUnwrap", "GuardNonNeg", "AssertPos")):
            is_conv = conv.startswith(("TryInto", "AsCast"))
            uses[arg].append(Use("LookupUnwrap", True if is_conv else on_conv, False))

    for pos, name, in_fmt in tokens:
        if name not in alias: continue
        cur_pos[0] = pos
        arg, on_conv = alias[name]
        if on_conv and bound_by.get(name) != last_conv[arg]:
            raise TranslateError(f"{ctx}: `{name}` refers to an earlier conversion of `{arg}` while a later one is live (two live conversions are not modelled)")
        if in_fmt:
            add(arg, "Formatted", on_conv); continue
        after = body[pos + len(name):]
        before = body[:pos]
        s, e = stmt_bounds(body, pos)
        stmt = body[s:e]
        # is this the binding occurrence of a `let name` / closure param? skip declarations
        if re.search(r"let\s+(?:mut\s+)?$", before) or re.search(r"\|\s*$", before) and after.lstrip().startswith("|"):
            continue
        letm = re.match(r"\s*let\s+(?:mut\s+)?(" + IDENT + r")\s*(?::\s*([A-Za-z0-9_<>]+))?\s*=\s*", stmt)
        bound = letm.group(1) if letm else None
        ann = letm.group(2) if letm else None
        rhs_start = s + letm.end() if letm else None

        # `(x)` / `(*x)` wrapper (not a call): skip the closing parenthesis
        wrapped = re.search(r"(?<![A-Za-z0-9_>!])\(\s*\*?\s*$", before) is not None
        a2, a2off = after, pos + len(name)
        if wrapped:
            wm = re.match(r"\s*\)", after)
            if wm: a2, a2off = after[wm.end():], a2off + wm.end()

        def conversion_at(txt, off, bound, ann, stmt_end, range_ctx_before):
            """a conversion applied to the value that ends just before txt: returns
            (coq conv, binds, end offset) or None"""
            cm = re.match(r"\s*\.\s*try_into\(\)\s*\.\s*(unwrap\(\)|expect\(|ok\(\)\s*\?|unwrap_or\()", txt, re.S)
            if cm:
                how, cend = cm.group(1), off + cm.end()
                if how.startswith(("unwrap_or", "expect")):
                    cend = match_brace(body, cend - 1, "(", ")") + 1
                tgt = None
                if ann: tgt = ann
                else:
                    cc_ = call_context(body, pos)
                    if cc_ and cc_[0] and not bound:
                        callee = cc_[0].split("::")[-1].split(".")[-1]
                        tgt = param_type_of_callee(callee, cc_[1], all_fns, ctx)
                    elif bound and how.startswith(("unwrap()", "expect")):
                        tgt = infer_unannotated_target(body, bound, ctx, all_fns)
                    elif range_ctx_before or re.match(r"\s*\.\.", body[cend:]):
                        tgt = "usize"       # bound of a range used to `.get()` a slice
                    else:
                        raise TranslateError(f"{ctx}: cannot determine the target type of `{name}.try_into()`")
                kind = {"unwrap()": "TryIntoUnwrap", "expect(": "TryIntoUnwrap", "unwrap_or(": "TryIntoOr"}.get(how, "TryIntoOk")
                dflt = or_default(body[off + cm.end():cend - 1]) if kind == "TryIntoOr" else ""
                return f"{kind} {ity_of(tgt, ctx)}{dflt}", bool(bound) and body[cend:stmt_end].strip() == "", cend
            if re.match(r"\s*\.\s*try_into\(\)", txt):
                raise TranslateError(f"{ctx}: `{name}.try_into()` followed by an unclassifiable continuation {txt[:60]!r}")
            m_ = re.match(r"\s+as\s+(" + IDENT + r")", txt)
            if m_ and m_.group(1) in ITY:
                cend = off + m_.end()
                return f"AsCast {ITY[m_.group(1)]}", bool(bound) and body[cend:stmt_end].strip() == "", cend
            return None

        def after_cast_fate(arg):
            """`.get_index(x as usize)...unwrap()` panics on a miss; other callees return Option"""
            cc_ = call_context(body, pos)
            if cc_ and cc_[0].endswith("get_index"):
                close = match_brace(body, cc_[2], "(", ")")
                k_, last = close + 1, None
                while True:
                    mm_ = re.compile(r"\s*\.\s*(" + IDENT + r")\s*").match(body, k_)
                    if not mm_: break
                    last, k_ = mm_.group(1), mm_.end()
                    if body[k_:k_ + 1] == "(":
                        k_ = match_brace(body, k_, "(", ")") + 1
                if last in ("unwrap", "expect"):
                    add(arg, "LookupUnwrap", True)
                else:
                    add(arg, f"Passed {q('get_index')}", True)
            elif cc_ and cc_[0]:
                add(arg, f"Passed {q(cc_[0].split('.')[-1])}", True)

        # ---- T::try_from(x) ....
        tf = re.search(r"\b(" + IDENT + r")::try_from\(\s*$", before)
        if tf:
            cm = re.match(r"\s*\)\s*\.\s*(unwrap\(\)|expect\(|ok\(\)\s*\?|unwrap_or\()", after, re.S)
            if not cm:
                raise TranslateError(f"{ctx}: `{tf.group(1)}::try_from({name})` followed by an unclassifiable continuation {after[:40]!r}")
            how, cend = cm.group(1), pos + len(name) + cm.end()
            if how.startswith(("unwrap_or", "expect")):
                cend = match_brace(body, cend - 1, "(", ")") + 1
            kind = {"unwrap()": "TryIntoUnwrap", "expect(": "TryIntoUnwrap", "unwrap_or(": "TryIntoOr"}.get(how, "TryIntoOk")
            binds = bool(bound) and body[cend:e].strip() == ""
            dflt = or_default(body[pos + len(name) + cm.end():cend - 1]) if kind == "TryIntoOr" else ""
            add(arg, f"{kind} {ity_of(tf.group(1), ctx)}{dflt}", on_conv, binds)
            last_conv[arg] += 1
            if binds: alias[bound] = (arg, True); bound_by[bound] = last_conv[arg]
            continue
        # ---- x.try_into()... / x as T
        cv = conversion_at(a2, a2off, bound, ann, e, re.search(r"\.\.=?\s*\(?\s*\*?\s*$", before) is not None)
        if cv:
            conv, binds, cend = cv
            add(arg, conv, on_conv, binds)
            last_conv[arg] += 1
            if binds: alias[bound] = (arg, True); bound_by[bound] = last_conv[arg]
            if conv.startswith("AsCast"): after_cast_fate(arg)
            continue
        # ---- checked / saturating / wrapping
        m = re.match(r"\s*\.\s*((?:checked|saturating|wrapping|overflowing)_[a-z_]+)\s*\(", after)
        if m:
            add(arg, f"Checked {q(m.group(1))}", on_conv); continue
        cc = call_context(body, pos)
        if cc and re.search(r"\.\s*(?:checked|saturating|wrapping|overflowing)_[a-z_]+$", body[:cc[2]]):
            add(arg, f"Checked {q('operand')}", on_conv); continue
        if re.match(r"\s*\.\s*to_string\(\)", after):
            add(arg, "Formatted", on_conv); continue
        # ---- abs
        if re.match(r"\s*\.\s*abs\(\)", after):
            add(arg, "UncheckedAbs", on_conv); continue
        m = re.match(r"\s*\.\s*(pow|neg)\s*\(", after)
        if m:
            raise TranslateError(f"{ctx}: `{name}.{m.group(1)}(..)`: unmodelled overflowing method")
        # ---- guards and assertions
        if re.match(r"\s*\)?\s*\.\s*is_negative\(\)", after) or re.match(r"\s*<\s*0\b", after):
            gm = re.search(r"if\s+\(?\*?$", before) or re.search(r"if\s+" + re.escape(name) + r"$", before + name)
            blk = re.match(r"[^{;]*\{\s*return\b", after, re.S)
            if gm and blk:
                add(arg, "GuardNonNeg", on_conv); continue
            add(arg, f"Compared {q('sign test')}", on_conv); continue
        if re.search(r"assert!\(\s*$", before) and re.match(r"\s*>\s*0\s*\)", after):
            add(arg, "AssertPos", on_conv); continue
        # ---- arithmetic
        am = re.match(r"\s*\)?\s*([+\-*])(?![=>])\s*(.*)", after, re.S)
        bm = re.search(r"([+\-*])\s*\(?$", before)
        if bm and not re.search(r"(->|[=(,{;|&<>!]\s*-)\s*\(?$", before) is None:
            bm = None
        if bm and bm.group(1) in "+-*" and re.search(r"[A-Za-z0-9_)\]]\s*[+\-*]\s*\(?$", before):
            # right operand of a binary operator: reported at the left operand if that is an
            # argument too; otherwise classify with an unknown/constant left operand
            left = re.search(r"(" + IDENT + r"|\d+)\s*[+\-*]\s*\(?$", before)
            lname = left.group(1) if left else "?"
            if lname in alias:
                continue  # already reported as `lname op name`
            op = {"+": "Add", "-": "Sub", "*": "Mul"}[bm.group(1)]
            opd = f"OpConst {lname}" if lname.isdigit() else f"OpUnknown {q(lname)}"
            add(arg, f"UncheckedArith {op} ({opd})", on_conv); continue
        if am and not after.lstrip().startswith(("..", "->")):
            op = {"+": "Add", "-": "Sub", "*": "Mul"}[am.group(1)]
            rest = am.group(2)
            om = re.match(r"(mem::size_of::<\s*(" + IDENT + r")\s*>\(\))|(\d+)\b|(" + IDENT + r")\b", rest)
            if om and om.group(1):
                if om.group(2) not in SIZEOF:
                    raise TranslateError(f"{ctx}: size_of::<{om.group(2)}> unknown")
                opd = f"OpConst {SIZEOF[om.group(2)]}"
            elif om and om.group(3): opd = f"OpConst {om.group(3)}"
            elif om and om.group(4) and om.group(4) in alias and not alias[om.group(4)][1]: opd = f"OpArg {q(alias[om.group(4)][0])}"
            elif om and om.group(4): opd = f"OpUnknown {q(om.group(4))}"
            else: raise TranslateError(f"{ctx}: arithmetic on `{name}` with an unclassifiable operand {rest[:40]!r}")
            # `(x op y).try_into()..` / `(x op y) as T`: the result is converted
            gm = re.search(r"(?<![A-Za-z0-9_>!])\(\s*$", before)
            if gm:
                gclose = match_brace(body, gm.start() + (len(gm.group(0)) - len(gm.group(0).lstrip())), "(", ")")
                cv = conversion_at(body[gclose + 1:], gclose + 1, bound, ann, e, re.search(r"\.\.=?\s*$", body[:gm.start()]) is not None)
                if cv:
                    uses[arg].append(Use(f"UncheckedArith {op} ({opd})", on_conv, True))
                    add(arg, cv[0], True, cv[1])
                    last_conv[arg] += 1
                    if cv[1]: alias[bound] = (arg, True); bound_by[bound] = last_conv[arg]
                    continue
            add(arg, f"UncheckedArith {op} ({opd})", on_conv); continue
        # ---- comparisons / match / contains
        if re.match(r"\s*\)?\s*(<=|>=|==|!=|<|>)(?!=)", after) or re.search(r"(<=|>=|==|!=|[^-]>|<)\s*\(?\*?$", before) and not re.search(r"(::<|->)\s*$", before):
            add(arg, f"Compared {q('comparison')}", on_conv); continue
        if re.search(r"\bmatch\s+$", before):
            add(arg, f"Compared {q('match')}", on_conv); continue
        if re.search(r"contains\(\s*&\s*$", before):
            add(arg, f"Compared {q('range contains')}", on_conv); continue
        # ---- range bound
        if re.match(r"\s*\.\.", after) or re.search(r"\.\.=?\s*$", before):
            cc2 = call_context(body, pos)
            if cc2 and cc2[0].split(".")[-1] in ("get", "contains"):
                add(arg, f"Passed {q('slice.get(range)')}", on_conv); continue
            if re.search(r"\[\s*$", before) or re.search(r"\[[^\]]*$", body[s:pos]):
                raise TranslateError(f"{ctx}: `{name}` used as an unchecked slice index bound")
            add(arg, f"Passed {q('range')}", on_conv); continue
        # ---- call argument (possibly a helper of the same file)
        if cc and cc[0] is not None:
            callee_full = cc[0]
            callee = callee_full.split("::")[-1].split(".")[-1]
            plain = re.match(r"\s*[,)]", after) and re.search(r"[(,]\s*&?\s*\(?\s*$", before)
            if not plain:
                raise TranslateError(f"{ctx}: `{name}` occurs inside a call to `{callee_full}` in an unclassifiable expression: {stmt.strip()[:80]!r}")
            helper = all_fns.get(callee)
            if helper is not None and helper.export is None and depth < 3 and "." not in callee_full and callee != f.name:
                pname = helper.params[cc[1]][0] if cc[1] < len(helper.params) else None
                if pname and helper.params[cc[1]][1] in ("i64", "i32"):
                    sub = classify_fn(helper, all_fns, helpers_followed, extern_follow, depth=depth + 1)
                    helpers_followed.add(callee)
                    add(arg, f"Passed {q(callee)}", on_conv)
                    for u in sub[pname]:
                        uses[arg].append(Use(u.conv, u.on_conv or on_conv, u.binds))
                        if u.conv.startswith(("TryInto", "AsCast")) or (u.conv.startswith("UncheckedArith") and u.binds):
                            last_conv[arg] += 1
                    continue
            add(arg, f"Passed {q(callee if callee else 'tuple')}", on_conv); continue
        if re.search(r"&\s*\(?\s*$", before) or re.match(r"\s*[,)]", after) and re.search(r"[(,]\s*$", before):
            add(arg, f"Passed {q('tuple')}", on_conv); continue
        # ---- plain rebinding `let y = x;` or tail expression
        if letm and stmt[letm.end():].strip() == name:
            alias[bound] = (arg, on_conv)
            if on_conv: bound_by[bound] = bound_by.get(name)
            continue
        raise TranslateError(f"{ctx}: cannot classify the use of `{name}` in {stmt.strip()[:100]!r}")
    return uses


def follow_matches_in_range(uses, matches_fns):
    """is_pat_match_in / pat_matches_in pass `lower as isize..=upper as isize` to
    MatchList::matches_in_range: append what that function does with range.start() /
    range.end() (rewritten to plain identifiers first)."""
    f = matches_fns.get("matches_in_range")
    if not f: raise TranslateError("matches.rs: fn matches_in_range not found")
    if not re.search(r"range\s*:\s*RangeInclusive<isize>", " ".join(f"{n}: {t}" for n, t in f.params)):
        raise TranslateError("matches_in_range: parameter is no longer `range: RangeInclusive<isize>`")
    body = f.body
    body = re.sub(r"\(\s*\*\s*range\.start\(\)\s*\)", "range_start", body)
    body = re.sub(r"\(\s*\*\s*range\.end\(\)\s*\)", "range_end", body)
    body = re.sub(r"\*?range\.start\(\)", "range_start", body)
    body = re.sub(r"\*?range\.end\(\)", "range_end", body)
    if re.search(r"(?<!\.)\brange\b", body):
        raise TranslateError("matches_in_range: `range` used in an unexpected way")
    g = Fn("matches_in_range", [("range_start", "i64"), ("range_end", "i64")], body, None, MATCHES)
    sub = classify_fn(g, matches_fns, set(), None)
    return sub["range_start"], sub["range_end"]


# ------------------------------------------------------------------ emit.rs
def emit_facts(emit):
    emit = strip_comments(emit)
    facts = {}
    # The integer branch of emit_div / emit_mod must have one of the shapes below (whitespace
    # removed); anything else is an unknown shape.
    ZERO = "throw_undef_if_zero(ctx,instr);"
    # divisor == -1 is emitted as `0 - lhs` (wraps), everything else as i64.div_s
    NEG1 = ("letlhs=ctx.wasm_symbols.i64_tmp_a;letrhs=ctx.wasm_symbols.i64_tmp_b;"
            "instr.local_set(rhs);instr.local_set(lhs);instr.local_get(rhs);instr.i64_const(-1);instr.binop(BinaryOp::I64Eq);"
            "instr.if_else(I64,|then|{then.i64_const(0);then.local_get(lhs);then.binop(BinaryOp::I64Sub);},"
            "|else_|{else_.local_get(lhs);else_.local_get(rhs);else_.binop(BinaryOp::I64DivS);},);")
    PLAIN = "instr.binop(BinaryOp::%s);"
    for fn_name, op in (("emit_div", "I64DivS"), ("emit_mod", "I64RemS")):
        body = re.sub(r"\s+", "", fn_body(emit, fn_name))
        n_sites = len(re.findall(r"BinaryOp::" + op + r"\b", body))
        if n_sites != 1: raise TranslateError(f"{fn_name}: expected exactly one BinaryOp::{op}, found {n_sites}")
        shapes = [(ZERO + NEG1, True, True), (NEG1, False, True), (ZERO + PLAIN % op, True, False), (PLAIN % op, False, False)]
        for text, zero, minus_one in shapes:
            if op != "I64DivS" and minus_one: continue
            i = body.find(text)
            # the shape must end the integer branch: followed only by closing braces
            if i >= 0 and re.fullmatch(r"\}*", body[i + len(text):]) and (zero or ZERO not in body):
                facts[op] = (zero, minus_one); break
        else:
            raise TranslateError(f"{fn_name}: the code around BinaryOp::{op} has an unknown shape (expected [throw_undef_if_zero] then "
                                 f"either the instruction or the `rhs == -1 => 0 - lhs` selection)")
        # the tmp locals used by the -1 selection must not be the ones throw_undef_if_zero leaves live
        if facts[op][1] and "i64_tmp_a" not in fn_body(emit, "throw_undef_if_zero"):
            raise TranslateError("throw_undef_if_zero no longer uses i64_tmp_a (the -1 selection re-reads both operands from tmp locals)")
    others = [m for m in re.finditer(r"BinaryOp::(I64DivS|I64RemS|I64DivU|I64RemU)\b", emit)]
    inside = len(re.findall(r"BinaryOp::(I64DivS|I64RemS)\b", fn_body(emit, "emit_div") + fn_body(emit, "emit_mod")))
    if len(others) != inside:
        raise TranslateError("emit.rs: an integer division / remainder instruction is emitted outside emit_div / emit_mod")
    tz = fn_body(emit, "throw_undef_if_zero")
    if not re.search(r"I64Eqz", tz) or "throw_undef(ctx, then)" not in re.sub(r"\s+", " ", tz):
        raise TranslateError("throw_undef_if_zero: expected `I64Eqz` + throw_undef in the then-branch")
    sm = re.search(r"macro_rules!\s+emit_shift_op\s*\{", emit)
    if not sm: raise TranslateError("emit_shift_op macro not found")
    sbody = emit[sm.end():match_brace(emit, sm.end() - 1)]
    facts["shift_guard"] = bool(re.search(r"i64_const\(64\);\s*\$instr\.binop\(BinaryOp::I64LtS\);\s*\$instr\.if_else", re.sub(r"\s+", " ", sbody).replace("; $", ";$").replace(";$", "; $")))
    truncs = re.findall(r"UnaryOp::(I64TruncSF64|I64TruncUF64|I32TruncSF64|I32TruncUF64|I64TruncSF32|I64TruncUF32)\b", emit)
    sat = re.findall(r"UnaryOp::(I64TruncSSatF64|I64TruncUSatF64)\b", emit)
    ef = fn_body(emit, "emit_for")
    facts["pct_trunc_trapping"] = "UnaryOp::I64TruncSF64" in ef
    facts["pct_trunc_saturating"] = "I64TruncSSatF64" in ef
    seq = re.sub(r"\s+", "", ef)
    tail = "instr.f64_const(100.0);instr.binop(BinaryOp::F64Div);instr.unop(UnaryOp::F64Ceil);instr.unop(UnaryOp::%s);"
    if (tail % "I64TruncSF64" in seq) == (tail % "I64TruncSSatF64" in seq) or facts["pct_trunc_trapping"] == facts["pct_trunc_saturating"]:
        raise TranslateError("emit_for: the percentage computation is neither `/ 100.0; ceil; i64.trunc_f64_s` nor `/ 100.0; ceil; i64.trunc_sat_f64_s`")
    facts["trapping_truncs"] = len(truncs)
    facts["trunc_outside_emit_for"] = len(truncs) - ef.count("UnaryOp::I64TruncSF64")
    # emitter-controlled host arguments
    ctl = []
    lc = re.sub(r"\s+", " ", fn_body(emit, "emit_lookup_common"))
    if "let num_lookup_indexes = ctx.lookup_list.len();" in lc and "ctx.lookup_list.first().unwrap()" in lc and lc.rstrip().endswith("instr.i32_const(num_lookup_indexes as i32);"):
        ctl.append(("lookup", "num_lookup_indexes", "emit_lookup_common pushes i32.const(lookup_list.len()), list non-empty"))
    calls = [m.start() for m in re.finditer(r"\bemit_map_lookup_by_index\(", emit)]
    fim = re.sub(r"\s+", " ", fn_body(emit, "emit_for_in_map"))
    if len(calls) == 2 and "load_var(ctx, instr, i); emit_map_lookup_by_index(ctx, instr, &map);" in fim and "wasm::export__map_len.mangled_name" in fim:
        ctl.append(("map_lookup_by_index", "index", "only called from emit_for_in_map with the loop counter i < n = map_len(map)"))
    if re.search(r"instr\.i32_const\(\(\*regex_set\)\.into\(\)\);", emit):
        ctl.append(("str_matches_regex_set", "regex_set", "i32.const(regex_set id) emitted by the compiler"))
    facts["ctl"] = ctl
    return facts


# ------------------------------------------------------------------ wasm/string.rs
STRING_RS = "lib/src/wasm/string.rs"


def string_facts(text):
    """the ASCII fast paths of the case-insensitive string operators: which length guards
    precede the slicing / subtraction / windows() of each helper, and whether the four
    operators dispatch on `this.is_ascii() && other.is_ascii()`"""
    text = strip_comments(text)
    fns = parse_fns(text, STRING_RS)
    def body(name):
        if name not in fns: raise TranslateError(f"string.rs: fn {name} not found")
        return re.sub(r"\s+", "", fns[name].body)
    f = {}
    b = body("starts_with_ascii_case_insensitive")
    core = "haystack[..prefix.len()].eq_ignore_ascii_case(prefix)"
    if b == "haystack.len()>=prefix.len()&&" + core: f["starts_len"] = True
    elif b == core: f["starts_len"] = False
    else: raise TranslateError("starts_with_ascii_case_insensitive: unknown shape " + b[:120])
    b = body("ends_with_ascii_case_insensitive")
    core = "haystack[haystack.len()-suffix.len()..].eq_ignore_ascii_case(suffix)"
    if b == "haystack.len()>=suffix.len()&&" + core: f["ends_len"] = True
    elif b == core: f["ends_len"] = False
    else: raise TranslateError("ends_with_ascii_case_insensitive: unknown shape " + b[:120])
    b = body("contains_ascii_case_insensitive")
    g1, g2 = "ifneedle.is_empty(){returntrue;}", "ifneedle.len()>haystack.len(){returnfalse;}"
    core = "haystack.windows(needle.len()).any(|window|window.eq_ignore_ascii_case(needle))"
    f["contains_empty"] = b.startswith(g1)
    rest = b[len(g1):] if f["contains_empty"] else b
    f["contains_longer"] = rest.startswith(g2)
    rest = rest[len(g2):] if f["contains_longer"] else rest
    if rest != core: raise TranslateError("contains_ascii_case_insensitive: unknown shape " + b[:160])
    # dispatch of the four operators
    helper = {"contains": "contains_ascii_case_insensitive(this.as_bytes(),other.as_bytes(),)",
              "starts_with": "starts_with_ascii_case_insensitive(this.as_bytes(),other.as_bytes(),)",
              "ends_with": "ends_with_ascii_case_insensitive(this.as_bytes(),other.as_bytes(),)",
              "equals": "this.as_bytes().eq_ignore_ascii_case(other.as_bytes())"}
    slow = {"contains": "this.contains_str(other)", "starts_with": "this.starts_with_str(other)", "ends_with": "this.ends_with_str(other)", "equals": "this.eq(&other)"}
    plain = {"contains": "self.as_bstr(ctx).contains_str(other.as_bstr(ctx))", "starts_with": "self.as_bstr(ctx).starts_with_str(other.as_bstr(ctx))",
             "ends_with": "self.as_bstr(ctx).ends_with_str(other.as_bstr(ctx))", "equals": "self.as_bstr(ctx).eq(other.as_bstr(ctx))"}
    for name in ("contains", "starts_with", "ends_with", "equals"):
        want = ("ifcase_insensitive{letthis=self.as_bstr(ctx);letother=other.as_bstr(ctx);ifthis.is_ascii()&&other.is_ascii(){" + helper[name] +
                "}else{letthis=this.to_lowercase();letother=other.to_lowercase();" + slow[name] + "}}else{" + plain[name] + "}")
        if body(name) != want:
            raise TranslateError(f"string.rs: RuntimeString::{name} no longer has the shape `case_insensitive ? (ascii ? fast path : to_lowercase) : bstr`")
    for name, meth in (("eq", "eq"), ("ne", "ne"), ("lt", "lt"), ("gt", "gt"), ("le", "le"), ("ge", "ge")):
        if body(name) != f"self.as_bstr(ctx).{meth}(other.as_bstr(ctx))":
            raise TranslateError(f"string.rs: RuntimeString::{name} is no longer a plain bstr comparison")
    return f


# ------------------------------------------------------------------ main
def exported_table(text, origin, export_attr, extra_fns=None, prefix=""):
    fns = parse_fns(text, origin)
    if extra_fns:
        for k, v in extra_fns.items(): fns.setdefault(k, v)
    table, others, followed = [], [], set()
    for f in fns.values():
        if f.export != export_attr: continue
        ints = [(n, t) for n, t in f.params if t in ("i64", "i32")]
        if not ints:
            others.append(prefix + f.name); continue
        uses = classify_fn(f, fns, followed, None)
        table.append((prefix + f.name, f.pub_name, f.params, uses))
    return table, others, followed, fns


def main():
    raw = src(WASM)
    text = strip_comments(raw)
    text, hooks = strip_verif_hooks(text, WASM)
    text = expand_macros(text)
    if "#[wasm_export" not in text: raise TranslateError("no #[wasm_export] in wasm/mod.rs")
    mtext, mhooks = strip_verif_hooks(strip_comments(src(MATCHES)), MATCHES)
    mfns = parse_fns(mtext, MATCHES)
    table, others, followed, wfns = exported_table(text, WASM, "wasm_export", extra_fns={"search": mfns.get("search")} if mfns.get("search") else None)
    if len(table) < 20: raise TranslateError(f"only {len(table)} integer-taking wasm exports found")
    int_names = {n for _, _, params, _ in table for n, t in params if t in ("i64", "i32")}
    for h in hooks + mhooks:
        for n in int_names:
            if re.search(r"\b" + n + r"\b", h):
                raise TranslateError(f"a yara_x_verif hook mentions the integer argument `{n}`: {h.strip()[:80]}")
    rs, re_ = follow_matches_in_range(None, mfns)
    for name, pub, params, uses in table:
        for a, us in uses.items():
            if any(u.conv == 'Passed "matches_in_range"' for u in us):
                extra = rs if "lower" in a else re_ if "upper" in a else None
                if extra is None: raise TranslateError(f"{name}: argument {a} passed to matches_in_range is neither the lower nor the upper bound")
                us.extend(Use(u.conv, True, u.binds) for u in extra)
    mod_tables = []
    for mname, path in MODULES:
        t = strip_comments(src(path))
        t = re.sub(r"#\[cfg\(test\)\]\s*mod\s+tests\s*\{.*\Z", "", t, flags=re.S)
        tb, oth, fol, _ = exported_table(t, path, "module_export", prefix=mname + ".")
        mod_tables.append((mname, tb))
    facts = emit_facts(src(EMIT))
    # scanner/context.rs: what eval_conditions does with an error of WASM main that is not a ScanError
    ec = re.sub(r"\s+", " ", strip_comments(fn_body(strip_verif_hooks(src("lib/src/scanner/context.rs"), "context.rs")[0], "eval_conditions")))
    mm = re.search(r"match eval_result \{(.*)\}\s*$", ec)
    if not mm: raise TranslateError("eval_conditions: `match eval_result` not found at the end of the function")
    arms = mm.group(1)
    if "Err(err) if err.is::<ScanError>()" not in arms:
        raise TranslateError("eval_conditions: the ScanError arm of `match eval_result` changed")
    last = re.search(r"Err\((?:err|_|e)\)\s*=>\s*(panic!|unreachable!|Err|Ok|return)", arms[arms.index("Err(err) if err.is::<ScanError>()") + 10:])
    if not last: raise TranslateError("eval_conditions: cannot classify the arm for non-ScanError errors (WASM traps)")
    facts["traps_panic"] = last.group(1) in ("panic!", "unreachable!")

    sfacts = string_facts(src(STRING_RS))
    # known-unsafe allow list from known_findings.jsonl
    known = []
    kf = os.path.join(os.path.dirname(os.path.abspath(__file__)), "..", "known_findings.jsonl")
    if os.path.exists(kf):
        for l in open(kf, encoding="utf-8"):
            l = l.strip()
            if not l or l.startswith("#"): continue
            d = json.loads(l)
            if d.get("property") == "C05" and d.get("kind") == "known" and d.get("host_arg"):
                for fa in d["host_arg"]:
                    known.append((fa[0], fa[1], d.get("fingerprint", "")))

    def coq_fn(name, pub, params, uses, origin):
        args = []
        for n, t in params:
            if t in ("i64", "i32"):
                us = "; ".join(u.coq() for u in uses[n])
                args.append(f'mkArg {q(n)} {ITY[t]} [{us}]')
        oth = "; ".join(q(f"{n}: {t}") for n, t in params if t not in ("i64", "i32") and n not in ("caller", "_", "ctx", "_ctx"))
        return f'  mkFn {q(name)} {q(pub)} {q(origin)}\n    [{"; ".join(args) if len(args) < 2 else (";" + chr(10) + "     ").join(args)}]\n    [{oth}]'

    lines = []
    lines.append("(* GENERATED by translate/gen_hostfns.py from lib/src/wasm/mod.rs, lib/src/scanner/matches.rs,\n"
                 "   lib/src/modules/{math.rs,hash/mod.rs,string.rs,console.rs}, lib/src/compiler/emit.rs and\n"
                 "   known_findings.jsonl -- do not edit; regenerated on every check. *)")
    lines.append("From Coq Require Import List ZArith String.\nFrom YV Require Import Cond.HostTypes.\nImport ListNotations.\nLocal Open Scope string_scope.\nLocal Open Scope Z_scope.\n")
    lines.append("(* #[wasm_export] functions of wasm/mod.rs with i64/i32 arguments: per argument, its uses in order *)")
    lines.append("Definition host_fns : list hfn := [\n" + ";\n".join(coq_fn(n, p, ps, us, "wasm/mod.rs") for n, p, ps, us in table) + "\n].\n")
    lines.append("(* the other #[wasm_export] functions (no integer argument) *)")
    lines.append("Definition other_exports : list string := [" + "; ".join(q(o) for o in others) + "].\n")
    lines.append("(* #[module_export] functions of the math / hash / string / console modules with integer arguments *)")
    allm = [(n, p, ps, us, f"modules/{mn}") for mn, tb in mod_tables for n, p, ps, us in tb]
    lines.append("Definition module_fns : list hfn := [\n" + ";\n".join(coq_fn(*x) for x in allm) + "\n].\n")
    lines.append("(* arguments whose value is produced by the code generator, never by a rule's run-time arithmetic\n   (prefix of the function name, argument, the emit.rs shape that was checked) *)")
    lines.append("Definition emitter_controlled : list (string * string * string) := [" + "; ".join(f"({q(a)}, {q(b)}, {q(c)})" for a, b, c in facts["ctl"]) + "].\n")
    lines.append("(* known_findings.jsonl entries of C05 that name a host argument: (function, argument, fingerprint) *)")
    lines.append("Definition known_unsafe : list (string * string * string) := [" + ";\n  ".join(f"({q(a)}, {q(b)}, {q(c)})" for a, b, c in known) + "].\n")
    b = lambda x: "true" if x else "false"
    lines.append("(* emit.rs: guards placed before the trapping integer instructions *)")
    lines.append(f"Definition div_guards : guards := mkGuards {b(facts['I64DivS'][0])} {b(facts['I64DivS'][1])} {b(facts['I64RemS'][0])} {b(facts['shift_guard'])}.")
    lines.append(f"(* percentage quantifiers: ceil(n * q / 100.0) converted with the trapping i64.trunc_f64_s? *)")
    lines.append(f"Definition pct_trunc_trapping : bool := {b(facts['pct_trunc_trapping'])}.")
    lines.append(f"Definition trapping_truncs_outside_emit_for : Z := {facts['trunc_outside_emit_for']}.")
    lines.append("(* scanner/context.rs eval_conditions: an error of WASM main that is not a ScanError (a trap) is turned into panic! *)")
    lines.append(f"Definition traps_become_panics : bool := {b(facts['traps_panic'])}.")
    lines.append("(* wasm/string.rs: length guards of the ASCII fast paths of icontains / istartswith / iendswith\n   (needle empty -> true; needle longer -> false; haystack.len() >= prefix.len(); haystack.len() >= suffix.len()) *)")
    lines.append(f"Definition str_guards : sguards := mkSGuards {b(sfacts['contains_empty'])} {b(sfacts['contains_longer'])} {b(sfacts['starts_len'])} {b(sfacts['ends_len'])}.")
    write_if_changed("HostFns.v", "\n".join(lines) + "\n")


if __name__ == "__main__":
    main()
