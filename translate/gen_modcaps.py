#!/usr/bin/env python3
"""Gen/ModCaps.v from the file-format parsers under lib/src/modules (C11).

Extracted:
* every `const MAX_*` of pe/parser.rs, dotnet/parser.rs, dex/parser.rs (name, value);
* how each cap is applied (shape checks): `usize::min(count, MAX)` / `min(.., MAX)`
  before a counted parse, `.take(MAX)` on an iterator, `len() == MAX -> return`;
* pe parse_resources: the counter of examined entries and its cap
  MAX_PE_RESOURCE_DIR_ENTRIES (counted first in the loop body; queue cleared and
  loop left once exceeded); the deepest level whose entries are processed (the match
  arms `0 =>`, `1 =>`, `2 =>`, `_ => continue`), that sub-directories are queued
  with `level + 1`, and whether the traversal remembers visited directories;
* dotnet parse_type_spec: the guard `*depth == MAX_RECURSION -> Err` followed by
  `*depth += 1`, and whether the counter is ever decremented.
"""
import re, os
from tlib import *

FILES = {"pe": "lib/src/modules/pe/parser.rs", "dotnet": "lib/src/modules/dotnet/parser.rs", "dex": "lib/src/modules/dex/parser.rs"}


def consts(text, where):
    out = []
    for m in re.finditer(r"const\s+(MAX_[A-Z_]+)\s*:\s*(?:usize|u32|u64)\s*=\s*([0-9_x]+)\s*;", text):
        v = m.group(2).replace("_", "")
        out.append((m.group(1), int(v, 16) if v.startswith("0x") else int(v)))
    if not out:
        raise TranslateError(f"{where}: no `const MAX_*` found")
    return out


def need(flat, pat, what):
    if not re.search(pat, flat):
        raise TranslateError(f"cap no longer applied as modelled: {what}")


# every limit constant of every module source, with the number of places that use it
# (pinned when the check was built: a constant that disappears, or loses a use, is a
# TranslateError; new constants are picked up automatically)
PINNED_CONSTS = {
    ('dex/parser.rs', 'MAX_STRINGS'): 1, ('dex/parser.rs', 'MAX_TYPES'): 1, ('dex/parser.rs', 'MAX_PROTOS'): 1,
    ('dex/parser.rs', 'MAX_CLASSES'): 1, ('dex/parser.rs', 'MAX_METHODS'): 1, ('dex/parser.rs', 'MAX_FIELDS'): 1,
    ('dotnet/parser.rs', 'MAX_PARAMS'): 2, ('dotnet/parser.rs', 'MAX_ROWS_PER_TABLE'): 1,
    ('dotnet/parser.rs', 'MAX_ARRAY_DIMENSION'): 3, ('dotnet/parser.rs', 'MAX_RECURSION'): 2,
    ('math.rs', 'DISTRIBUTION_CACHE_MAX_ENTRIES'): 1,
    ('elf/parser.rs', 'MAX_NAME_LENGTH'): 1,
    ('macho/parser.rs', 'MAX_SYMBOL_NAME_LENGTH'): 3, ('macho/parser.rs', 'MAX_CHAINED_IMPORTS'): 1,
    ('olecf/parser.rs', 'MAX_STREAM_SIZE'): 2, ('olecf/parser.rs', 'MAX_REGULAR_SECTOR'): 13,
    ('pe/parser.rs', 'MAX_PE_SECTIONS'): 1, ('pe/parser.rs', 'MAX_PE_IMPORTS'): 5, ('pe/parser.rs', 'MAX_PE_EXPORTS'): 2,
    ('pe/parser.rs', 'MAX_PE_RESOURCES'): 1, ('pe/parser.rs', 'MAX_PE_RESOURCE_DIR_ENTRIES'): 1,
    ('pe/parser.rs', 'MAX_DIR_ENTRIES'): 2, ('pe/parser.rs', 'MAX_FUNC_NAME_LENGTH'): 3, ('pe/parser.rs', 'MAX_DLL_NAME_LENGTH'): 1,
}
# inline limits written as `verify(parser, |x| *x <= N)` / `< N`, per file
PINNED_INLINE = {'dotnet/parser.rs': 6, 'lnk/parser.rs': 1, 'pe/parser.rs': 2}


def module_sources():
    import glob
    root = os.path.join(REPO, "lib/src/modules") + os.sep
    out = {}
    for f in sorted(glob.glob(root + "**/*.rs", recursive=True)):
        rel = f[len(root):]
        if "/tests/" in rel or rel.startswith("protos") or "verif_c11" in rel or rel == "tests.rs":
            continue
        t = strip_comments(open(f, encoding="latin-1").read())
        # drop `#[cfg(test)] mod x;` declarations and `#[cfg(test)] mod x { .. }` blocks
        while True:
            m = re.search(r"#\[cfg\(test\)\]\s*(?:pub\s+)?mod\s+[a-z_0-9]+\s*(;|\{)", t)
            if not m:
                break
            if m.group(1) == ";":
                t = t[:m.start()] + t[m.end():]
            else:
                t = t[:m.start()] + t[match_brace(t, m.end() - 1) + 1:]
        out[rel] = t
    if not out:
        raise TranslateError("no module sources found under lib/src/modules")
    return out


def limit_inventory():
    """(file, constant) -> (value text, number of uses) for every MAX/LIMIT/DEPTH constant"""
    inv, inline = {}, {}
    for rel, t in module_sources().items():
        for m in re.finditer(r"const\s+([A-Z0-9_]*(?:MAX|LIMIT|DEPTH)[A-Z0-9_]*)\s*:\s*(\w+)\s*=\s*([^;]+);", t):
            name = m.group(1)
            inv[(rel, name)] = (re.sub(r"\s+", " ", m.group(3).strip()), len(re.findall(r"\b" + name + r"\b", t)) - 1)
        n = len(re.findall(r"verify\(\s*[a-z_0-9:<>&\[\], ]+?,\s*\|[a-z_]+\|\s*\*?[a-z_]+\s*(?:<=|<)\s*[0-9A-Za-z_:]+", t))
        if n:
            inline[rel] = n
    for key, uses in PINNED_CONSTS.items():
        if key not in inv:
            raise TranslateError(f"limit constant {key[1]} of modules/{key[0]} has disappeared")
        if inv[key][1] < uses:
            raise TranslateError(f"limit constant {key[1]} of modules/{key[0]} is applied in {inv[key][1]} place(s), {uses} when the check was built: a cap has been removed")
    for rel, n in PINNED_INLINE.items():
        if inline.get(rel, 0) < n:
            raise TranslateError(f"modules/{rel}: {inline.get(rel, 0)} inline `verify(.., |x| *x <= N)` limits, {n} when the check was built: a limit has been removed")
    return inv, inline


HASH_TYPES = r"(?:FxHashMap|FxHashSet|HashMap|HashSet)"


def hash_iteration_sites():
    """Structural determinism check: every binding of a hash container in the module sources
    (let, field, parameter, tuple-struct wrapper) and every place that ITERATES over one
    (iter / into_iter / keys / values / drain / for .. in): iteration order of these containers is
    unspecified, so an output list fed from such an iteration could differ between two calls.
    Lookups, inserts and membership tests are order-independent and are not listed."""
    containers, sites = [], []
    for rel, t in module_sources().items():
        if not re.search(HASH_TYPES, t):
            continue
        names = set()
        for m in re.finditer(r"\blet\s+(?:mut\s+)?([a-z_][a-z_0-9]*)\s*(?::\s*[^=;]*?" + HASH_TYPES + r"[^=;]*)?=\s*[^;]*?" + HASH_TYPES + r"\b", t):
            names.add(m.group(1))
        for m in re.finditer(r"\b([A-Za-z_][A-Za-z_0-9]*)\s*:\s*(?:&\s*(?:'[a-z_]+\s+)?(?:mut\s+)?)?(?:[A-Za-z:<]*<)*\s*" + HASH_TYPES + r"\s*<", t):
            names.add(m.group(1))
        wrappers = re.findall(r"struct\s+([A-Za-z0-9_]+)\s*\(\s*(?:pub\s+)?" + HASH_TYPES + r"\s*<", t)
        for n in sorted(names):
            containers.append(f"{rel}:{n}")
        for w in wrappers:
            containers.append(f"{rel}:{w}.0")
        iter_re = r"\.(?:iter|iter_mut|into_iter|keys|values|values_mut|into_keys|into_values|drain)\s*\("
        for n in names:
            for m in re.finditer(r"(?:\bself\s*\.\s*)?\b" + re.escape(n) + r"\s*(?:\.\s*borrow(?:_mut)?\(\)\s*)?" + iter_re, t):
                sites.append(f"{rel}:{n}:{m.group(0).strip()}")
            for m in re.finditer(r"\bfor\s+[^;{]*?\bin\s+&?\s*(?:mut\s+)?(?:self\s*\.\s*)?" + re.escape(n) + r"\s*\{", t):
                sites.append(f"{rel}:{n}:for-in")
        if wrappers:
            for m in re.finditer(r"\.\s*0\s*" + iter_re, t):
                sites.append(f"{rel}:.0:{m.group(0).strip()}")
    if not containers:
        raise TranslateError("no hash containers found in the module sources: the scan no longer sees what it used to")
    return sorted(set(containers)), sorted(set(sites))


def main():
    inventory, inline = limit_inventory()
    hcont, hsites = hash_iteration_sites()
    texts = {k: strip_comments(src(p)) for k, p in FILES.items()}
    cs = {k: consts(t, FILES[k]) for k, t in texts.items()}
    pe = re.sub(r"\s+", " ", texts["pe"])
    need(pe, r"usize::min\( pe_hdr\.number_of_sections as usize, Self::MAX_PE_SECTIONS, \)", "sections: min(number_of_sections, MAX_PE_SECTIONS)")
    need(pe, r"usize::min\( self\.optional_hdr\.number_of_rva_and_sizes as usize, Self::MAX_DIR_ENTRIES, \)", "data directories: min(number_of_rva_and_sizes, MAX_DIR_ENTRIES)")
    need(pe, r"import_descriptors\.take\(Self::MAX_PE_IMPORTS\)", "import descriptors: .take(MAX_PE_IMPORTS)")
    need(pe, r"if num_imported_funcs >= Self::MAX_PE_IMPORTS", "imported functions: stop at MAX_PE_IMPORTS")
    need(pe, r"min\(exports\.number_of_functions as usize, Self::MAX_PE_EXPORTS\)", "exports: min(number_of_functions, MAX_PE_EXPORTS)")
    need(pe, r"if resources\.len\(\) == Self::MAX_PE_RESOURCES \{ return Some\(\(resources_info, resources\)\); \}", "resources: return at MAX_PE_RESOURCES")
    # resource tree walk
    body = strip_comments(fn_body(texts["pe"], "parse_resources"))
    flat = re.sub(r"\s+", " ", body)
    need(flat, r"queue\.push_back\(\(0, ids, rsrc_section\)\)", "parse_resources: the root is queued at level 0")
    need(flat, r"while let Some\(\(level, ids, rsrc_dir\)\) = queue\.pop_front\(\)", "parse_resources: BFS over a queue")
    qm = re.search(r"if dir_entry\.is_subdir(?: && level < (\d+))? \{ queue\.push_back\(\(level \+ 1, ids, entry_data\)\); \}", flat)
    if not qm:
        raise TranslateError("cap no longer applied as modelled: parse_resources: sub-directories queued with level + 1 (optionally only while level < K)")
    queue_guard = int(qm.group(1)) if qm.group(1) else None
    need(flat, r"let mut num_dir_entries = 0;", "parse_resources: counter of examined directory entries starts at 0")
    need(flat, r"for dir_entry in dir_entries \{ num_dir_entries \+= 1; if num_dir_entries > Self::MAX_PE_RESOURCE_DIR_ENTRIES \{ queue\.clear\(\); break; \}",
         "parse_resources: every examined entry is counted first; past MAX_PE_RESOURCE_DIR_ENTRIES the queue is cleared and the loop left")
    if flat.count("num_dir_entries") != 3:
        raise TranslateError("parse_resources: num_dir_entries is used in an unexpected place (reset / decremented?)")
    if not any(n == "MAX_PE_RESOURCE_DIR_ENTRIES" for n, _ in cs["pe"]):
        raise TranslateError("pe/parser.rs: const MAX_PE_RESOURCE_DIR_ENTRIES not found")
    m = re.search(r"let ids = match level \{", body)
    if not m:
        raise TranslateError("parse_resources: `let ids = match level {` not found")
    j = match_brace(body, m.end() - 1)
    arms = body[m.end():j]
    levels = [int(x) for x in re.findall(r"(?m)^\s*(\d+)\s*=>", arms)]
    if not levels or levels != list(range(len(levels))) or not re.search(r"_\s*=>\s*continue", arms):
        raise TranslateError(f"parse_resources: level arms {levels} / `_ => continue` have an unexpected shape")
    visited = bool(re.search(r"visited|seen|HashSet|BTreeSet", body))
    need(flat, r"dir_entries\.take\(rsrc_dir\.number_of_entries\)", "parse_resources: entries limited by number_of_entries")
    need(pe, r"verify\(le_u16, \|n\| \*n <= 32768\), verify\(le_u16, \|n\| \*n <= 32768\),", "parse_rsrc_dir: named/id entry counts <= 32768")

    dn = re.sub(r"\s+", " ", texts["dotnet"])
    need(dn, r"min\( num_rows_per_present_table\.next\(\)\.unwrap\(\), Self::MAX_ROWS_PER_TABLE, \)", "dotnet: rows per table min(.., MAX_ROWS_PER_TABLE)")
    need(dn, r"if result\.len\(\) >= Self::MAX_RECURSION \{ return None; \}", "dotnet: enclosing-type chain stops at MAX_RECURSION")
    pts = re.sub(r"\s+", " ", fn_body(texts["dotnet"], "parse_type_spec"))
    need(pts, r"^\s*if \*depth == Self::MAX_RECURSION \{ return Err\(Error::RecursionLimit\); \}", "parse_type_spec: depth guard is the first statement")
    need(pts, r"\*depth \+= 1;", "parse_type_spec: *depth += 1")
    decremented = bool(re.search(r"\*depth\s*-=|depth\s*-\s*1", pts))
    need(dn, r"verify\(var_uint, \|count\| \*count < Self::MAX_PARAMS\)", "dotnet: parameter count < MAX_PARAMS")
    need(dn, r"\*n <= Self::MAX_ARRAY_DIMENSION", "dotnet: array dimensions <= MAX_ARRAY_DIMENSION")
    dx = re.sub(r"\s+", " ", texts["dex"])
    for c in ("MAX_STRINGS", "MAX_TYPES", "MAX_CLASSES"):
        need(dx, r"\.take\(Self::" + c + r"\)", f"dex: .take({c})")

    # macho parse_exports: how a node of the export trie is recognised as visited
    macho = strip_comments(open(os.path.join(REPO, "lib/src/modules/macho/parser.rs"), encoding="latin-1").read())
    pex = re.sub(r"\s+", " ", fn_body(macho, "parse_exports"))
    need(pex, r"let mut stack = Vec::<ExportNode>::new\(\);", "parse_exports: explicit stack of nodes")
    need(pex, r"while !stack\.is_empty\(\) && !data\.is_empty\(\) \{ let export_node = stack\.pop\(\)\.unwrap\(\);", "parse_exports: pops one node per iteration")
    need(pex, r"let node_data = match data\.get\(export_node\.offset\.\.\) \{ Some\(data\) => data, None => continue, \};", "parse_exports: nodes outside the trie data are skipped")
    need(pex, r"let \(mut edge_remainder, edges\) = u8\(remaining_data\)\?;", "parse_exports: the number of edges of a node is a u8")
    vis = re.search(r"let mut visited = HashSet::<([^>]*(?:<[^>]*>)?[^>]*)>::new\(\);", pex)
    ins = re.findall(r"visited\.insert\(([^;]*?)\)\s*\{", pex)
    if not vis or len(ins) != 1 or not re.search(r"if !visited\.insert\(", pex):
        raise TranslateError("parse_exports: `visited` set / `if !visited.insert(..) { continue }` not found")
    key_is_offset = vis.group(1).strip() == "usize" and ins[0].strip() == "export_node.offset"
    if pex.count("visited.") != 1:
        raise TranslateError("parse_exports: the visited set is used in an unexpected way (removed from? cleared?)")

    # name caps (fixes daf5ea9e, 07806781): the window that is searched for the NUL terminator
    elfp = re.sub(r"\s+", " ", strip_comments(src("lib/src/modules/elf/parser.rs")))
    need(elfp, r"let name = str_table\.get\(str_idx as usize\.\.\)\?; let name = &name\[\.\.name\.len\(\)\.min\(Self::MAX_NAME_LENGTH\)\];", "elf parse_name: only MAX_NAME_LENGTH bytes are searched for the terminator")
    need(re.sub(r"\s+", " ", fn_body(macho, "parse_symtab")), r"let string_data = &string_data \[\.\.string_data\.len\(\)\.min\(MAX_SYMBOL_NAME_LENGTH \+ 1\)\];", "macho parse_symtab: name window of MAX_SYMBOL_NAME_LENGTH + 1 bytes")
    pcf = re.sub(r"\s+", " ", fn_body(macho, "parse_chained_fixups"))
    need(pcf, r"\.chunks_exact\(entry_size\) \.take\(MAX_CHAINED_IMPORTS\)", "macho parse_chained_fixups: .take(MAX_CHAINED_IMPORTS)")
    need(pcf, r"let name_buffer = &name_buffer\[\.\.name_buffer \.len\(\) \.min\(MAX_SYMBOL_NAME_LENGTH \+ 1\)\];", "macho parse_chained_fixups: name window of MAX_SYMBOL_NAME_LENGTH + 1 bytes")
    need(pex, r"&& export_node\.prefix\.len\(\) \+ edge_label_str\.len\(\) <= MAX_SYMBOL_NAME_LENGTH \{ stack\.push\(ExportNode", "macho parse_exports: children are pushed only while the export name stays within MAX_SYMBOL_NAME_LENGTH")

    lines = []
    for k in ("pe", "dotnet", "dex"):
        for n, v in cs[k]:
            lines.append(f"Definition {k}_{n} : N := {v}.")
    out = f"""(* GENERATED by translate/gen_modcaps.py from lib/src/modules/{{pe,dotnet,dex}}/parser.rs
   -- do not edit; regenerated on every check. *)
From Coq Require Import NArith String List.
Import ListNotations.
Local Open Scope N_scope.

{chr(10).join(lines)}

(* every limit constant of every module source: (file, name, value as written, places that use it) *)
Definition module_limit_constants : list (string * string * string * nat) :=
  [{"; ".join('("%s", "%s", "%s", %d%%nat)' % (k[0], k[1], v[0].replace('"', "'"), v[1]) for k, v in sorted(inventory.items()))}]%string.
(* inline `verify(.., |x| *x <= N)` limits per file *)
Definition module_inline_limits : list (string * nat) := [{"; ".join('("%s", %d%%nat)' % (k, v) for k, v in sorted(inline.items()))}]%string.

(* determinism, structural part: hash containers bound in the module sources ... *)
Definition module_hash_containers : list string := [{"; ".join('"%s"' % c for c in hcont)}]%string.
(* ... and the places that iterate over one of them (iteration order is unspecified);
   lookups / inserts / membership tests are not listed *)
Definition module_hash_iteration_sites : list string := [{"; ".join('"%s"' % c.replace('"', "'") for c in hsites)}]%string.

(* pe parse_resources: entries of directories at levels 0..rsrc_max_level are
   processed; deeper directories are still dequeued and parsed, their entries skipped *)
Definition rsrc_max_level : nat := {levels[-1]}.
(* sub-directories are queued with level + 1 only while level < K (K = max_level + 1
   when there is no such guard): the deepest level that is ever dequeued *)
Definition rsrc_deepest_level : nat := {queue_guard if queue_guard is not None else levels[-1] + 1}.
(* does the traversal remember which directories it has already visited? *)
Definition rsrc_walk_remembers_visited : bool := {'true' if visited else 'false'}.
(* parse_rsrc_dir: number_of_named_entries, number_of_id_entries <= 32768 each *)
Definition rsrc_max_entries_per_dir : N := 65536.

(* macho parse_exports: a trie node is recognised as already visited by its
   offset alone (false: by something finer, e.g. (offset, prefix), so that a
   node reached along two paths is expanded twice) *)
Definition trie_visited_key_is_offset : bool := {'true' if key_is_offset else 'false'}.

(* dotnet parse_type_spec: is the shared depth counter ever decremented? *)
Definition dotnet_depth_decremented : bool := {'true' if decremented else 'false'}.
"""
    write_if_changed("ModCaps.v", out)


if __name__ == "__main__":
    main()
