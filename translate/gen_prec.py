#!/usr/bin/env python3
"""Gen/BindingPower.v and Gen/DocPrecedence.v (property C02).

* BindingPower.v: the `binding_power` closure of `pratt_parser` in
  parser/src/ast/cst2ast.rs (token kind -> (left, right) binding power), the
  three operator layers of the grammar in parser/src/parser/mod.rs
  (boolean_expr: and/or over boolean terms; boolean_term: comparison and string
  operators over expressions; expr: arithmetic/bitwise operators over terms) and
  the prefix operators with the nonterminal their operand is parsed with.
* DocPrecedence.v: the operator table of
  site/content/docs/writing_rules/conditions.md (precedence, associativity).
"""
import re
from tlib import *

# documentation symbol (+ description when the symbol is ambiguous) -> token kind
DOC_BINARY = {
    "or": "OR_KW", "and": "AND_KW", "==": "EQ", "!=": "NE", "contains": "CONTAINS_KW", "icontains": "ICONTAINS_KW",
    "startswith": "STARTSWITH_KW", "istartswith": "ISTARTSWITH_KW", "endswith": "ENDSWITH_KW", "iendswith": "IENDSWITH_KW",
    "iequals": "IEQUALS_KW", "matches": "MATCHES_KW", "<": "LT", "<=": "LE", ">": "GT", ">=": "GE",
    "|": "BITWISE_OR", "^": "BITWISE_XOR", "&": "BITWISE_AND", "<<": "SHL", ">>": "SHR", "+": "ADD", "*": "MUL",
    "\\": "DIV", "%": "MOD", ".": "DOT",
}
DOC_PREFIX = {"~": "BITWISE_NOT", "defined": "DEFINED_KW", "not": "NOT_KW"}


def coq_str_list(xs):
    return "[" + "; ".join('"%s"' % x for x in xs) + "]"


def token_set(body, must_contain, what):
    """the t!(A | B | ...) set inside `body` that contains `must_contain`"""
    for m in re.finditer(r"t!\(\s*([A-Z_|\s]+?)\s*\)", body):
        kinds = [k.strip() for k in m.group(1).split("|")]
        if must_contain in kinds:
            return kinds
    raise TranslateError(f"{what}: no t!(..) set containing {must_contain}")


def binding_powers():
    s = strip_comments(src("parser/src/ast/cst2ast.rs"))
    body = fn_body(s, "pratt_parser")
    m = re.search(r"let\s+binding_power\s*=\s*\|operator\|\s*->\s*\(u8,\s*u8\)\s*\{", body)
    if not m:
        raise TranslateError("pratt_parser: `let binding_power = |operator| -> (u8, u8) {` not found")
    j = match_brace(body, m.end() - 1)
    clos = body[m.end():j]
    mm = re.search(r"match\s+operator\s*\{", clos)
    if not mm:
        raise TranslateError("binding_power: `match operator {` not found")
    k = match_brace(clos, mm.end() - 1)
    arms = clos[mm.end():k]
    table = re.findall(r"([A-Z_]+)\s*=>\s*\(\s*(\d+)\s*,\s*(\d+)\s*\)", arms)
    if len(table) < 10:
        raise TranslateError(f"binding_power: only {len(table)} arms recognised")
    rest = re.sub(r"[A-Z_]+\s*=>\s*\(\s*\d+\s*,\s*\d+\s*\)\s*,?", "", arms).strip()
    if not re.fullmatch(r"operator\s*=>\s*panic!\(.*\)\s*,?", rest, re.S):
        raise TranslateError(f"binding_power: unrecognised arm(s): {rest[:120]!r}")
    # the loop must compare the left power with min_bp and recurse with the right one
    loop = body[j:]
    if not re.search(r"if\s+l_bp\s*<\s*min_bp\s*\{\s*break;?\s*\}", loop):
        raise TranslateError("pratt_parser: `if l_bp < min_bp { break; }` not found")
    if not re.search(r"self\.pratt_parser\(\s*parse_expr\s*,\s*r_bp\s*\)", loop):
        raise TranslateError("pratt_parser: recursive call with r_bp not found")
    # which parser each layer uses and with which initial binding power
    calls = re.findall(r"self\.pratt_parser\(\s*Self::([a-z_]+)\s*,\s*(\d+)\s*\)", s)
    if sorted(calls) != sorted([("boolean_term", "0"), ("expr", "0"), ("term", "0")]):
        raise TranslateError(f"pratt_parser call sites changed: {calls}")
    return [(k, int(l), int(r)) for k, l, r in table]


def grammar_layers():
    s = strip_comments(src("parser/src/parser/mod.rs"))
    be = fn_body(s, "boolean_expr")
    bt = fn_body(s, "boolean_term")
    ex = fn_body(s, "expr")
    tm = fn_body(s, "term")
    layer_bool = token_set(be, "AND_KW", "boolean_expr")
    layer_cmp = token_set(bt, "EQ", "boolean_term")
    layer_arith = token_set(ex, "ADD", "expr")
    # prefix operators: `not`/`defined` take a boolean_term, `-`/`~` take a term
    pre_bool = token_set(bt, "NOT_KW", "boolean_term")
    if not re.search(r"t!\(\s*NOT_KW\s*\|\s*DEFINED_KW\s*\)\s*,\s*DESC\s*\)\s*\.then\(Self::boolean_term\)", re.sub(r"\s+", " ", bt).replace("( ", "(").replace(" )", ")")) \
       and not re.search(r"NOT_KW\s*\|\s*DEFINED_KW[^;]*?then\(Self::boolean_term\)", bt, re.S):
        raise TranslateError("boolean_term: `not`/`defined` no longer followed by a boolean_term")
    pre_term = []
    for kind in ("MINUS", "BITWISE_NOT"):
        if not re.search(r"t!\(\s*" + kind + r"\s*\)[^;]*?\.then\(Self::term\)", tm, re.S):
            raise TranslateError(f"term: prefix {kind} no longer followed by a term")
        pre_term.append(kind)
    # the comparison chain must be built over `expr`, and boolean_expr over boolean_term
    if "Self::boolean_term" not in be:
        raise TranslateError("boolean_expr is no longer a chain of boolean_term")
    if not re.search(r"p\.expr\(\)\s*\.zero_or_more", bt):
        raise TranslateError("boolean_term: comparison chain over expr not found")
    if "Self::term" not in ex:
        raise TranslateError("expr is no longer a chain of term")
    return layer_bool, layer_cmp, layer_arith, pre_bool, pre_term


def doc_table():
    md = src("site/content/docs/writing_rules/conditions.md")
    rows = re.findall(r"^\|\s*(\d+)\s*\|\s*`((?:\\\||[^`])+)`\s*\|\s*([^|]*?)\s*\|\s*(Left-to-right|Right-to-left)\s*\|\s*$", md, re.M)
    if len(rows) < 25:
        raise TranslateError(f"conditions.md: only {len(rows)} rows of the operator table recognised")
    binary, prefix, postfix = [], [], []
    for prec, sym, desc, assoc in rows:
        sym = sym.replace("\\|", "|")
        prec = int(prec); ltr = (assoc == "Left-to-right")
        d = desc.lower()
        if sym == "-":
            if "unary" in d: prefix.append(("MINUS", sym, prec, ltr))
            elif "subtraction" in d: binary.append(("SUB", sym, prec, ltr))
            else: raise TranslateError(f"conditions.md: cannot tell which `-` this is: {desc!r}")
        elif sym == "[]":
            postfix.append(("SUBSCRIPT", sym, prec, ltr))
        elif sym == "endsswith" and "case-insensitive" in d:
            # the table spells `iendswith` as `endsswith` (documentation typo)
            binary.append(("IENDSWITH_KW", sym, prec, ltr))
        elif sym in DOC_PREFIX:
            prefix.append((DOC_PREFIX[sym], sym, prec, ltr))
        elif sym in DOC_BINARY:
            binary.append((DOC_BINARY[sym], sym, prec, ltr))
        else:
            raise TranslateError(f"conditions.md: unknown operator `{sym}` in the precedence table")
    return binary, prefix, postfix


def main():
    bp = binding_powers()
    lb, lc, la, pb, pt = grammar_layers()
    binary, prefix, postfix = doc_table()
    t1 = f"""(* GENERATED by translate/gen_prec.py from parser/src/ast/cst2ast.rs (binding_power closure of
   pratt_parser) and parser/src/parser/mod.rs (grammar) -- do not edit; regenerated on every check. *)
From Coq Require Import List String.
Import ListNotations.
Local Open Scope string_scope.

(* token kind -> (left binding power, right binding power) *)
Definition binding_power : list (string * (nat * nat)) :=
  [{"; ".join('("%s", (%d, %d))' % x for x in bp)}].

(* BOOLEAN_EXPR := BOOLEAN_TERM (op BOOLEAN_TERM)*  *)
Definition layer_bool : list string := {coq_str_list(lb)}.
(* BOOLEAN_TERM := EXPR (op EXPR)* | ...  *)
Definition layer_cmp : list string := {coq_str_list(lc)}.
(* EXPR := TERM (op TERM)*  *)
Definition layer_arith : list string := {coq_str_list(la)}.
(* prefix operators whose operand is a BOOLEAN_TERM / a TERM *)
Definition prefix_boolean_term : list string := {coq_str_list(pb)}.
Definition prefix_term : list string := {coq_str_list(pt)}.
"""
    def rows(xs):
        return "[" + ";\n   ".join('("%s", "%s", %d, %s)' % (k, s.replace("\\", "\\\\") if False else s, p, "true" if l else "false") for k, s, p, l in xs) + "]"
    t2 = f"""(* GENERATED by translate/gen_prec.py from site/content/docs/writing_rules/conditions.md (the
   operator precedence table) -- do not edit; regenerated on every check.
   (token kind, symbol in the table, precedence, left-to-right?) *)
From Coq Require Import List String.
Import ListNotations.
Local Open Scope string_scope.

Definition doc_binary : list (string * string * nat * bool) :=
  {rows(binary)}.
Definition doc_prefix : list (string * string * nat * bool) :=
  {rows(prefix)}.
Definition doc_postfix : list (string * string * nat * bool) :=
  {rows(postfix)}.
"""
    write_if_changed("BindingPower.v", t1)
    write_if_changed("DocPrecedence.v", t2)


if __name__ == "__main__":
    main()
