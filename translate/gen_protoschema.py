#!/usr/bin/env python3
"""Gen/ProtoSchema.v from lib/src/modules/protos/*.proto (C12).

Every module .proto (all files except yara.proto and mods.proto) is parsed into
the descriptor type of Types/StructModel.v:

  TMsg syntax [FD name number ignored type; ...] extra

* field names are the names YARA sees: `(yara.field_options).name` renames applied;
  `ignore = true` fields are kept with ignored = true (structure.rs skips them);
* types: int32/sint32/sfixed32 -> TInt I32, int64/.. -> I64, uint32/fixed32 -> U32,
  uint64/fixed64 -> U64, enums -> TInt IEnum, float/double -> TFloat, bool -> TBool,
  string/bytes -> TStr, messages -> nested TMsg (inlined; a recursive type is an
  error, as in structure.rs), repeated -> TArr, map<k, v> -> TMap;
* extra: the names of the fields that Struct::add_enum_fields appends to the
  module's root structure (inline enums: their items; other enums: the enum's
  name, or the outermost enclosing non-root message);
* names are numbered per module (`names_<module>`, id = position), the harness
  refers to fields by string and the check resolves them through this table.

Also generated per module: the fields with an ACL, with `lowercase`, with `fmt`,
with a deprecation notice, and the enum items with their values
(`(yara.enum_value).i64` overrides applied).
"""
import re, os, glob
from tlib import *

SCALARS = {
    "int32": "TInt I32", "sint32": "TInt I32", "sfixed32": "TInt I32",
    "int64": "TInt I64", "sint64": "TInt I64", "sfixed64": "TInt I64",
    "uint32": "TInt U32", "fixed32": "TInt U32",
    "uint64": "TInt U64", "fixed64": "TInt U64",
    "float": "TFloat", "double": "TFloat", "bool": "TBool", "string": "TStr", "bytes": "TStr",
}
KEYS = {"int32": "KInt I32", "sint32": "KInt I32", "sfixed32": "KInt I32", "int64": "KInt I64", "sint64": "KInt I64",
        "sfixed64": "KInt I64", "uint32": "KInt U32", "fixed32": "KInt U32", "uint64": "KInt U64", "fixed64": "KInt U64",
        "string": "KStr"}

TOKEN = re.compile(r"""\s*(?:(//[^\n]*|/\*.*?\*/)|("(?:[^"\\]|\\.)*"|'(?:[^'\\]|\\.)*')|(-?0[xX][0-9a-fA-F]+|-?\d+(?:\.\d+)?(?:[eE][-+]?\d+)?)|([A-Za-z_][A-Za-z_0-9.]*)|(.))""", re.S)


def tokenize(text, fname):
    toks, i = [], 0
    while i < len(text):
        m = TOKEN.match(text, i)
        if not m or m.end() == i:
            if text[i:].strip() == "": break
            raise TranslateError(f"{fname}: cannot tokenize at {text[i:i+30]!r}")
        i = m.end()
        if m.group(1): continue
        if m.group(2): toks.append(("str", m.group(2)[1:-1]))
        elif m.group(3): toks.append(("num", m.group(3)))
        elif m.group(4): toks.append(("id", m.group(4)))
        elif m.group(5) and m.group(5).strip(): toks.append(("sym", m.group(5)))
    return toks


class P:
    def __init__(self, toks, fname):
        self.t, self.i, self.f = toks, 0, fname

    def peek(self, k=0): return self.t[self.i + k] if self.i + k < len(self.t) else ("eof", "")
    def next(self): x = self.peek(); self.i += 1; return x
    def err(self, msg): raise TranslateError(f"{self.f}: {msg} near {' '.join(v for _, v in self.t[max(0,self.i-4):self.i+4])!r}")
    def expect(self, v):
        x = self.next()
        if x[1] != v: self.i -= 1; self.err(f"expected {v!r}, found {x[1]!r}")
    def accept(self, v):
        if self.peek()[1] == v and self.peek()[0] in ("sym", "id"): self.i += 1; return True
        return False

    # --- option values
    def const(self):
        k, v = self.next()
        if k == "sym" and v == "{": self.i -= 1; return self.aggregate()
        if k == "sym" and v == "[":
            items = []
            while not self.accept("]"):
                items.append(self.const()); self.accept(",")
            return items
        if k == "num": return int(v, 0) if re.match(r"-?(0[xX][0-9a-fA-F]+|\d+)$", v) else float(v)
        if k == "str": return v
        if k == "id": return {"true": True, "false": False}.get(v, v)
        self.i -= 1; self.err("option value expected")

    def aggregate(self):
        self.expect("{")
        d = {}
        while not self.accept("}"):
            k, key = self.next()
            if k != "id": self.i -= 1; self.err("aggregate key expected")
            self.accept(":")
            val = self.const()
            self.accept(","); self.accept(";")
            if key in d:
                d[key] = (d[key] if isinstance(d[key], list) else [d[key]]) + (val if isinstance(val, list) else [val])
            else:
                d[key] = val
        return d

    def option_name(self):
        """`(yara.field_options).name` / `deprecated` -> ("yara.field_options", "name") / ("deprecated", None)"""
        if self.accept("("):
            k, ext = self.next(); self.expect(")")
            sub = None
            if self.peek() == ("id", "." ) : pass
            nxt = self.peek()
            if nxt[0] == "id" and nxt[1].startswith("."):
                self.next(); sub = nxt[1][1:]
            elif nxt == ("sym", "."):
                self.next(); sub = self.next()[1]
            return ext.lstrip("."), sub
        k, v = self.next()
        return v, None

    def options_into(self, opts):
        ext, sub = self.option_name()
        self.expect("=")
        val = self.const()
        if sub is None:
            if isinstance(val, dict) and isinstance(opts.get(ext), dict): opts[ext].update(val)
            else: opts[ext] = val
        else:
            opts.setdefault(ext, {})
            if not isinstance(opts[ext], dict): self.err(f"option {ext} given both as aggregate and scalar")
            opts[ext][sub] = val

    def bracket_options(self):
        opts = {}
        if self.accept("["):
            while True:
                self.options_into(opts)
                if self.accept("]"): break
                self.expect(",")
        return opts

    # --- declarations
    def file(self):
        f = {"syntax": "proto2", "package": "", "options": {}, "messages": [], "enums": []}
        while self.peek()[0] != "eof":
            k, v = self.next()
            if v == "syntax": self.expect("="); f["syntax"] = self.next()[1]; self.expect(";")
            elif v == "import":
                if self.peek()[1] in ("public", "weak"): self.next()
                self.next(); self.expect(";")
            elif v == "package": f["package"] = self.next()[1]; self.expect(";")
            elif v == "option": self.options_into(f["options"]); self.expect(";")
            elif v == "message": f["messages"].append(self.message())
            elif v == "enum": f["enums"].append(self.enum())
            elif v == ";": pass
            else: self.i -= 1; self.err(f"top-level declaration not understood: {v!r}")
        return f

    def message(self):
        name = self.next()[1]
        m = {"name": name, "fields": [], "messages": [], "enums": [], "options": {}}
        self.expect("{")
        while not self.accept("}"):
            k, v = self.peek()
            if v == "message": self.next(); m["messages"].append(self.message())
            elif v == "enum": self.next(); m["enums"].append(self.enum())
            elif v == "option": self.next(); self.options_into(m["options"]); self.expect(";")
            elif v == "reserved" and self.peek(1)[0] in ("num", "str"):
                while self.next()[1] != ";": pass
            elif v in ("oneof", "extensions", "extend", "group"):
                self.err(f"`{v}` inside a message is not supported by the translator")
            elif v == ";": self.next()
            else: m["fields"].append(self.field())
        return m

    def field(self):
        label = None
        if self.peek()[1] in ("optional", "required", "repeated"): label = self.next()[1]
        k, ty = self.next()
        key = None
        if ty == "map":
            self.expect("<"); key = self.next()[1]; self.expect(","); ty = self.next()[1]; self.expect(">")
            label = "map"
        k, name = self.next()
        if k != "id": self.i -= 1; self.err("field name expected")
        self.expect("=")
        k, num = self.next()
        if k != "num": self.i -= 1; self.err("field number expected")
        opts = self.bracket_options()
        self.expect(";")
        return {"label": label, "type": ty, "key": key, "name": name, "number": int(num, 0), "options": opts}

    def enum(self):
        name = self.next()[1]
        e = {"name": name, "values": [], "options": {}}
        self.expect("{")
        while not self.accept("}"):
            k, v = self.peek()
            if v == "option": self.next(); self.options_into(e["options"]); self.expect(";")
            elif v == "reserved":
                while self.next()[1] != ";": pass
            elif v == ";": self.next()
            else:
                self.next(); self.expect("=")
                k2, num = self.next()
                if k2 != "num": self.i -= 1; self.err("enum value expected")
                opts = self.bracket_options()
                self.expect(";")
                e["values"].append((v, int(num, 0), opts))
        return e


# ------------------------------------------------------------------ resolution
GLOBAL_TYPES = {}


def register_types(f):
    def walk(prefix, encl, msgs, enums):
        for e in enums: GLOBAL_TYPES[prefix + e["name"]] = ("enum", e, encl, f)
        for m in msgs:
            GLOBAL_TYPES[prefix + m["name"]] = ("message", m, encl, f)
            walk(prefix + m["name"] + ".", encl + [m], m["messages"], m["enums"])
    walk((f["package"] + ".") if f["package"] else "", [], f["messages"], f["enums"])


class Module:
    def __init__(self, fname, f):
        self.fname, self.f = fname, f
        mo = f["options"].get("yara.module_options")
        if not isinstance(mo, dict) or "name" not in mo or "root_message" not in mo:
            raise TranslateError(f"{fname}: no (yara.module_options) with name and root_message")
        self.name, self.root_full = mo["name"], mo["root_message"]
        self.pkg = f["package"]
        # full name -> ("message"|"enum", decl, enclosing message decls, file): all files (imports)
        self.types = GLOBAL_TYPES
        if self.root_full not in self.types or self.types[self.root_full][0] != "message":
            raise TranslateError(f"{fname}: root message {self.root_full} not found")
        self.names = []      # id = position
        self.acl, self.lower, self.fmt, self.deprecated = [], [], [], []

    def nid(self, s):
        if s not in self.names: self.names.append(s)
        return self.names.index(s)

    def resolve(self, ty, scope_full):
        """protobuf name resolution: innermost scope outwards"""
        if ty.startswith("."):
            return ty[1:] if ty[1:] in self.types else None
        parts = scope_full.split(".") if scope_full else []
        for k in range(len(parts), -1, -1):
            cand = ".".join(parts[:k] + [ty])
            if cand in self.types: return cand
        return None

    def yara_field_name(self, fd):
        fo = fd["options"].get("yara.field_options", {})
        return fo.get("name", fd["name"]) if isinstance(fo, dict) else fd["name"]

    def msg_ty(self, full, stack):
        kind, m, _, mf = self.types[full]
        if full in stack:
            raise TranslateError(f"{self.fname}: recursive protobuf type {full}")
        syn = "Proto3" if mf["syntax"] == "proto3" else "Proto2"
        fds, seen_num, seen_name = [], set(), set()
        for fd in m["fields"]:
            fo = fd["options"].get("yara.field_options", {})
            if not isinstance(fo, dict): raise TranslateError(f"{self.fname}: field options of {fd['name']} not understood")
            ign = bool(fo.get("ignore", False))
            name = self.yara_field_name(fd)
            if fd["number"] in seen_num: raise TranslateError(f"{self.fname}: duplicate field number {fd['number']} in {full}")
            seen_num.add(fd["number"])
            t = fd["type"]
            if t in SCALARS: base = SCALARS[t]
            else:
                r = self.resolve(t, full)
                if r is None: raise TranslateError(f"{self.fname}: type {t} of field {full}.{fd['name']} not found")
                base = "TInt IEnum" if self.types[r][0] == "enum" else self.msg_ty(r, stack + [full])
            if fd["label"] == "repeated": base = f"TArr ({base})"
            elif fd["label"] == "map":
                if fd["key"] not in KEYS: raise TranslateError(f"{self.fname}: map key type {fd['key']} of {fd['name']} cannot be a YARA map key")
                base = f"TMap ({KEYS[fd['key']]}) ({base})"
            path = full + "." + name
            if "acl" in fo: self.acl.append(path)
            if fo.get("lowercase"): self.lower.append(path)
            if "fmt" in fo: self.fmt.append(path)
            if "deprecation_notice" in fo: self.deprecated.append(path)
            fds.append(f"FD {self.nid(name)} {fd['number']} {'true' if ign else 'false'} ({base})")
        extra = self.enum_extras() if full == self.root_full else []
        return f"TMsg {syn} [{'; '.join(fds)}] [{'; '.join(str(self.nid(x)) for x in extra)}]"

    # --- Struct::add_enum_fields, first path component only
    def opt(self, decl, ext, key, default=None):
        o = decl["options"].get(ext, {})
        return o.get(key, default) if isinstance(o, dict) else default

    def enum_extras(self):
        order = []
        def visit_msg(full, stack):
            kind, m, _, _f = self.types[full]
            for e in m["enums"]: add(full + "." + e["name"])
            for fd in m["fields"]:
                fo = fd["options"].get("yara.field_options", {})
                if isinstance(fo, dict) and fo.get("ignore"): continue
                if fd["type"] in SCALARS or fd["label"] == "map": continue
                r = self.resolve(fd["type"], full)
                if r is None: continue
                if self.types[r][0] == "enum": add(r)
                elif r not in stack: visit_msg(r, stack + [r])
        def add(full):
            if full not in order: order.append(full)
        visit_msg(self.root_full, [self.root_full])
        for e in self.f["enums"]: add(((self.pkg + ".") if self.pkg else "") + e["name"])
        out = []
        for full in order:
            kind, e, encl, _f = self.types[full]
            inline = bool(self.opt(e, "yara.enum_options", "inline", False))
            path = [] if inline else [self.opt(e, "yara.enum_options", "name", e["name"])]
            for m in reversed(encl):
                mfull = [k for k, v in self.types.items() if v[1] is m][0]
                if mfull != self.root_full:
                    path.append(self.opt(m, "yara.message_options", "name", m["name"]))
            path = list(reversed(path))
            firsts = [path[0]] if path else [v[0] for v in e["values"]]
            for x in firsts:
                if x not in out: out.append(x)
        return out

    def annotated(self):
        """every field reachable from the root message that carries a yara field option other than
        `name` / `ignore`: (root-relative path of YARA names, options)"""
        out = []
        def walk(full, prefix, stack):
            kind, m, _, _f = self.types[full]
            for fd in m["fields"]:
                fo = fd["options"].get("yara.field_options", {})
                if not isinstance(fo, dict): continue
                if fo.get("ignore"): continue
                name = self.yara_field_name(fd)
                opts = [k for k in ("lowercase", "fmt", "acl", "deprecation_notice") if k in fo and fo[k] not in (False, None)]
                if opts: out.append((prefix + [name], opts))
                if fd["type"] not in SCALARS:
                    r = self.resolve(fd["type"], full)
                    if r is not None and self.types[r][0] == "message" and r not in stack:
                        walk(r, prefix + [name], stack + [r])
        walk(self.root_full, [], [self.root_full])
        return out

    def enum_items(self):
        items = []
        for full, (kind, e, encl, ef) in self.types.items():
            if kind != "enum" or ef is not self.f: continue
            for (n, v, o) in e["values"]:
                ov = o.get("yara.enum_value", {})
                if isinstance(ov, dict) and "i64" in ov: v = ov["i64"]
                items.append((full + "." + n, v))
        return items


def parse_all():
    d = os.path.join(REPO, "lib/src/modules/protos")
    files = sorted(glob.glob(os.path.join(d, "*.proto")))
    if len(files) < 10:
        raise TranslateError(f"only {len(files)} .proto files found in lib/src/modules/protos")
    mods, parsed = [], []
    GLOBAL_TYPES.clear()
    for p in files:
        base = os.path.basename(p)
        if base in ("yara.proto", "mods.proto"): continue
        text = open(p, encoding="utf-8").read()
        f = P(tokenize(text, base), base).file()
        if "yara.module_options" not in f["options"]:
            raise TranslateError(f"{base}: not a module definition (no yara.module_options)")
        register_types(f)
        parsed.append((base, f))
    for base, f in parsed:
        mods.append(Module(base, f))
    return mods


def coq_ident(s): return re.sub(r"[^A-Za-z0-9_]", "_", s)


def main():
    mods = parse_all()
    L = ["(* GENERATED by translate/gen_protoschema.py from lib/src/modules/protos/*.proto -- do not edit;",
         "   regenerated on every check. *)",
         "From Coq Require Import List String NArith ZArith.",
         "From YV Require Import Types.StructModel.",
         "Import ListNotations.",
         "Local Open Scope string_scope.", ""]
    entries = []
    for m in mods:
        schema = m.msg_ty(m.root_full, [])
        # numbers inside FD/extras are N literals
        schema = re.sub(r"FD (\d+) (\d+) ", lambda x: f"FD {x.group(1)}%N {x.group(2)}%N ", schema)
        schema = re.sub(r"\] \[([0-9; ]*)\]", lambda x: "] [" + "; ".join(n + "%N" for n in x.group(1).split("; ") if n) + "]", schema)
        cid = coq_ident(m.name)
        L.append(f"(* {m.fname}: module \"{m.name}\", root message {m.root_full} *)")
        L.append(f"Definition names_{cid} : list string := [" + "; ".join(f'"{n}"' for n in m.names) + "].")
        L.append(f"Definition schema_{cid} : ty :=\n  {schema}.")
        for what, lst in (("acl", m.acl), ("lowercase", m.lower), ("fmt", m.fmt), ("deprecated", m.deprecated)):
            L.append(f"Definition {what}_fields_{cid} : list string := [" + "; ".join(f'"{x}"' for x in lst) + "].")
        L.append("(* fields with a yara option other than name/ignore: (path of YARA names from the root, options) *)")
        L.append(f"Definition annotated_{cid} : list (list string * list string) := [" + "; ".join(
            "([" + "; ".join(f'"{x}"' for x in path) + "], [" + "; ".join(f'"{o}"' for o in opts) + "])" for path, opts in m.annotated()) + "].")
        L.append(f"Definition enum_items_{cid} : list (string * Z) := [" + "; ".join(
            f'("{n}", {("(" + str(v) + ")") if v < 0 else v}%Z)' for n, v in m.enum_items()) + "].")
        L.append("")
        entries.append((m.name, cid))
    L.append("Definition proto_annotated : list (string * list (list string * list string)) :=\n  [" + ";\n   ".join(
        f'("{n}", annotated_{c})' for n, c in entries) + "].")
    L.append("Definition proto_schemas : list (string * (list string * ty)) :=\n  [" + ";\n   ".join(
        f'("{n}", (names_{c}, schema_{c}))' for n, c in entries) + "].")
    L.append("")
    write_if_changed("ProtoSchema.v", "\n".join(L) + "\n")
    return {"modules": [n for n, _ in entries]}


if __name__ == "__main__":
    import json
    print(json.dumps(main()))
