#!/usr/bin/env python3
"""Gen/ScanState.v from lib/src/scanner/{context,mod,blocks}.rs, lib/src/wasm/mod.rs
and the module thread-locals under lib/src/modules.

* field lists of ScanContext, MatchTracker, WasmState, Scanner, blocks::Scanner
  (one inductive `field`, cfg attributes noted);
* the creation-time value of every field (create_wasm_store_and_ctx, Scanner::new,
  blocks::Scanner::new, From<Scanner>) and of the two WASM globals;
* the body of ScanContext::reset() as a statement list (every statement must be
  understood: an added or removed line is noticed);
* the prologue of Scanner::scan_impl, the body of blocks::Scanner::{scan, finish};
* DEFAULT_SCAN_TIMEOUT and the shape of the timeout clamp; the deadline polls of
  ac_search_loop; what search_for_patterns / the host function / eval_conditions
  do on a timeout;
* every `thread_local!` RefCell/Cell static of the modules and whether the
  module's main function re-initialises it.
"""
import re, os, glob
from tlib import *

CTX = "lib/src/scanner/context.rs"
SCN = "lib/src/scanner/mod.rs"
BLK = "lib/src/scanner/blocks.rs"
WASM = "lib/src/wasm/mod.rs"


def split_top(s, sep=","):
    out, depth, cur, i = [], 0, [], 0
    while i < len(s):
        c = s[i]
        if c in "([{<":
            depth += 1
        elif c in ")]}>":
            if not (c == ">" and i > 0 and s[i - 1] in "-="):
                depth -= 1
        if c == sep and depth == 0:
            out.append("".join(cur)); cur = []
        else:
            cur.append(c)
        i += 1
    if "".join(cur).strip():
        out.append("".join(cur))
    return out


def struct_fields(text, header_re, what):
    body, _, _ = block_after(text, header_re, what)
    body = strip_comments(body)
    fields = []
    for item in split_top(body):
        item = item.strip()
        if not item:
            continue
        cfgs = re.findall(r"#\[cfg\((.*?)\)\]\s*(?=#|pub|[a-z_])", item, re.S)
        item2 = re.sub(r"#\[[^\]]*\]\s*", "", item, flags=re.S).strip()
        m = re.match(r"(?:pub(?:\([a-z]+\))?\s+)?([a-z_][a-z_0-9]*)\s*:\s*(.+)$", item2, re.S)
        if not m:
            raise TranslateError(f"{what}: cannot parse field {item[:80]!r}")
        fields.append((m.group(1), re.sub(r"\s+", " ", m.group(2)), " && ".join(re.sub(r"\s+", " ", c) for c in cfgs)))
    if not fields:
        raise TranslateError(f"{what}: no fields")
    return fields


def top_statements(body):
    """split a function body into top-level statements (`...;` or `kw ... {...}`)"""
    out, i, n = [], 0, len(body)
    while i < n:
        while i < n and body[i].isspace():
            i += 1
        if i >= n:
            break
        start, depth = i, 0
        while i < n:
            c = body[i]
            if c in "([":
                depth += 1
            elif c in ")]":
                depth -= 1
            elif c == "{":
                j = match_brace(body, i)
                head = body[start:i]
                i = j + 1
                if depth == 0 and re.match(r"\s*(#\[[^\]]*\]\s*)*(if|for|while|loop|match|unsafe)\b", head) and not re.match(r"\s*(let|return)\b", head):
                    # `if {..} else {..}` chains
                    k = i
                    m = re.match(r"\s*else\s*", body[k:])
                    if m:
                        i = k + m.end() - 0
                        continue
                    break
                continue
            elif c == ";" and depth == 0:
                i += 1
                break
            i += 1
        out.append(re.sub(r"\s+", " ", body[start:i]).strip())
    return [s for s in out if s]


PATH2FIELD = {}  # "tracker.pattern_matches" -> "tracker_pattern_matches"


def fld(path, where):
    p = re.sub(r"\s+", "", path)
    if p not in PATH2FIELD:
        raise TranslateError(f"{where}: `self.{p}` is not a known field of ScanContext/MatchTracker/WasmState")
    return PATH2FIELD[p]


IVALS = [
    (r"^(IndexMap::new\(\)|FxHashMap::default\(\)|FxHashSet::default\(\)|Vec::new\(\)|BTreeMap::new\(\)|Default::default\(\)|RefCell::new\(FxHashMap::default\(\)\)|PatternMatches::new\(\))$", "IEmpty"),
    (r"^None$", "INone"), (r"^0$", "IZero"), (r"^false$", "IFalse"), (r"^true$", "ITrue"),
    (r"^ScanState::Idle$", "IIdle"),
]


def ival(expr):
    e = re.sub(r"\s+", "", expr)
    for pat, v in IVALS:
        if re.match(pat, e):
            return v
    return 'IOther "%s"' % e.replace('"', "'")[:60]


def parse_reset(ctx_text):
    impl = ctx_text
    body = strip_comments(fn_body(impl, "reset", "ScanContext::reset"))
    stmts = top_statements(body)
    out, facts = [], {}

    def simple(s, where):
        s = s.rstrip(";").strip()
        m = re.match(r"^self\.([a-z_.]+)\.clear\(\)$", s)
        if m:
            return "SClear " + fld(m.group(1), where)
        m = re.match(r"^self\.([a-z_.]+) = (.+)$", s)
        if m and m.group(1) != "deadline":
            v = ival(m.group(2))
            if v.startswith("IOther"):
                raise TranslateError(f"{where}: value not understood in `{s}`")
            return "SAssign %s %s" % (fld(m.group(1), where), v)
        return None

    for s in stmts:
        where = "reset(): `%s`" % s[:70]
        if s.startswith("#[cfg(yara_x_verif)]"):
            continue
        if re.match(r"^let num_rules = self\.compiled_rules\.num_rules\(\);$", s) or re.match(r"^let num_patterns = self\.compiled_rules\.num_patterns\(\);$", s):
            continue
        if re.match(r"^self\.scan_id = SCAN_COUNTER\.fetch_add\(1, Ordering::Relaxed\) \+ 1;$", s):
            out.append("S SNewScanId"); continue
        x = simple(s, where)
        if x:
            out.append("S (%s)" % x); continue
        m = re.match(r"^for rules in self\.([a-z_.]+)\.values_mut\(\) \{ for rule_id in rules\.drain\(0\.\.\) \{ self\.([a-z_.]+)\.push\(rule_id\); \} \}$", s)
        if m:
            out.append("S (SDrain %s %s)" % (fld(m.group(1), where), fld(m.group(2), where))); continue
        m = re.match(r"^if (.+?) \{ (.*) \}$", s)
        if m and "is_empty()" in m.group(1):
            conds = [c.strip() for c in m.group(1).split("||")]
            g = []
            for c in conds:
                cm = re.match(r"^!self\.([a-z_.]+)\.is_empty\(\)$", c)
                if not cm:
                    raise TranslateError(f"{where}: guard term `{c}` not understood")
                g.append(fld(cm.group(1), where))
            inner = top_statements(m.group(2))
            body_s, fill = [], None
            for t in inner:
                y = simple(t, where)
                if y:
                    body_s.append(y); continue
                if re.match(r"^let store = self\.wasm_store_mut\(\);$", t) or re.match(r"^let mem = self\.wasm\.main_memory\.unwrap\(\)\.data_mut\(store\);$", t):
                    continue
                if re.match(r"^let base = MATCHING_RULES_BITMAP_BASE as usize;$", t):
                    facts["bitmap_base"] = True; continue
                bm = re.match(r"^let bitmap = BitSlice::<_, Lsb0>::from_slice_mut\( &mut mem\[base\.\.(.+?)\], \);$", t)
                if bm:
                    rng = re.sub(r"\s+", "", bm.group(1))
                    if not rng.startswith("base+"):
                        raise TranslateError(f"{where}: bitmap range `{rng}` not understood")
                    terms = rng[len("base+"):].split("+")
                    known = {"num_rules.div_ceil(8)": "rules", "num_patterns.div_ceil(8)": "patterns"}
                    cover = set()
                    for tt in terms:
                        if tt not in known:
                            raise TranslateError(f"{where}: bitmap range term `{tt}` not understood")
                        cover.add(known[tt])
                    # the pattern bitmap follows the rule bitmap: covering patterns needs rules first
                    facts["cover"] = cover; continue
                if re.match(r"^bitmap\.fill\(false\);$", t):
                    fill = True; continue
                raise TranslateError(f"{where}: statement `{t[:80]}` inside the guard not understood")
            if fill:
                if not facts.get("bitmap_base"):
                    raise TranslateError("reset(): bitmap.fill without the MATCHING_RULES_BITMAP_BASE base")
                cover = facts.get("cover", set())
                r = "true" if "rules" in cover else "false"
                # the slice is contiguous from the rule bitmap: patterns are covered only if rules are
                p = "true" if ("patterns" in cover and "rules" in cover) else "false"
                body_s.append("SFillBitmaps %s %s" % (r, p))
            out.append("SIfNonEmpty [%s] [%s]" % ("; ".join(g), "; ".join(body_s))); continue
        if s.startswith("let timeout_secs ="):
            e = re.sub(r"\s+", "", s)
            want = "lettimeout_secs=self.scan_timeout.map_or(Self::DEFAULT_SCAN_TIMEOUT,|t|{cmp::min(t.as_secs_f32().ceil()asu64,Self::DEFAULT_SCAN_TIMEOUT,)});"
            if e != want:
                raise TranslateError("reset(): the timeout clamp formula changed: " + s[:200])
            facts["clamp"] = True; continue
        if re.match(r"^self\.deadline = HEARTBEAT_COUNTER\.load\(Ordering::Relaxed\) \+ timeout_secs;$", s):
            if not facts.get("clamp"):
                raise TranslateError("reset(): deadline set before timeout_secs is computed")
            out.append("S SSetDeadline"); continue
        if re.match(r"^let wasm_store = self\.wasm_store_mut\(\);$", s):
            continue
        if re.match(r"^wasm_store\.set_epoch_deadline\(timeout_secs\);$", s):
            out.append("S SSetEpochDeadline"); continue
        if re.match(r"^wasm_store\.epoch_deadline_callback\(\|_\| Err\(ScanError::Timeout\.into\(\)\)\);$", s):
            out.append("S SSetEpochCallback"); continue
        if re.match(r"^if self\.scan_timeout\.is_some\(\) \{ INIT_HEARTBEAT\.call_once\(", s):
            inner = re.sub(r"\s+", "", s)
            for need in ("thread::sleep(Duration::from_secs(1));", "wasm::get_engine().increment_epoch();", "HEARTBEAT_COUNTER.fetch_update(", "|x|Some(x+1)"):
                if need not in inner:
                    raise TranslateError("reset(): heartbeat thread body changed (missing `%s`)" % need)
            out.append("S SStartHeartbeatIfTimeout"); continue
        raise TranslateError(f"reset(): statement not understood: `{s[:160]}`")
    return out


def parse_creation(ctx_text):
    body = strip_comments(fn_body(ctx_text, "create_wasm_store_and_ctx"))
    m = re.search(r"let ctx = ScanContext \{", body)
    if not m:
        raise TranslateError("create_wasm_store_and_ctx: `let ctx = ScanContext {` not found")
    j = match_brace(body, m.end() - 1)
    lit = body[m.end():j]
    init = {}

    def walk(lit, prefix):
        for item in split_top(lit):
            item = re.sub(r"#\[[^\]]*\]\s*", "", item, flags=re.S).strip()
            if not item:
                continue
            mm = re.match(r"([a-z_][a-z_0-9]*)\s*:\s*(.+)$", item, re.S)
            if not mm:
                raise TranslateError(f"create_wasm_store_and_ctx: cannot parse initialiser {item[:60]!r}")
            name, val = mm.group(1), mm.group(2).strip()
            sm = re.match(r"(MatchTracker|WasmState)\s*\{(.*)\}$", val, re.S)
            if sm:
                walk(sm.group(2), {"MatchTracker": "tracker", "WasmState": "wasm"}[sm.group(1)] + "_")
                init[("ctx_" + name)] = 'IOther "struct"'
            else:
                init[(prefix + name)] = ival(val)
    walk(lit, "ctx_")
    g = {}
    for nm in ("filesize", "pattern_search_done"):
        gm = re.search(r"let " + nm + r" = Global::new\(\s*wasm_store\.as_context_mut\(\),\s*GlobalType::new\(ValType::(I64|I32), Mutability::Var\),\s*Val::(?:I64|I32)\((-?\d+)\),", body)
        if not gm:
            raise TranslateError(f"create_wasm_store_and_ctx: WASM global `{nm}` not found")
        g[nm] = int(gm.group(2))
    return init, g


def ctx_effects(stmts, where, var="ctx"):
    """prologue statements `ctx.<...>` -> model statements; anything else touching ctx is an error"""
    out = []
    for s in stmts:
        if s == "drop(user_provided_module_outputs);":
            out.append("SDropUserOutputs"); continue
        if var + "." not in s and "self." not in s:
            continue
        yield_s = None
        if re.match(r"^(let )?ctx = self\.scan_context_mut\(\);$", s) or re.match(r"^let ctx = self\.scan_context_mut\(\);$", s):
            continue
        if s == "ctx.reset();":
            yield_s = "SCallReset"
        elif s == "ctx.set_filesize(data.len() as i64);":
            yield_s = "SSetGlobalFilesize"
        elif s == "ctx.scan_state = ScanState::ScanningData(data);":
            yield_s = "SSetScanState 2"
        elif s == "ctx.scan_state = ScanState::ScanningBlock((base, data));":
            yield_s = "SSetScanState 3"
        elif s == "ctx.scan_state = ScanState::Idle;":
            yield_s = "SSetScanState 0"
        elif s == "ctx.user_provided_module_outputs.clear();":
            yield_s = "SClear ctx_user_provided_module_outputs"
        elif s == "let mut user_provided_module_outputs = std::mem::take(&mut ctx.user_provided_module_outputs);":
            yield_s = "STakeUserOutputs"
        elif s == "ctx.set_pattern_search_done(false);":
            yield_s = "SSetGlobalPsd false"
        elif s == "ctx.eval_conditions()?;":
            yield_s = "SEval"
        elif s == "ctx.search_for_patterns()?;":
            yield_s = "SSearch"
        elif s.startswith("let data = match &ctx.scan_state {") or s.startswith("let mut mod_ctx") or s.startswith("for (module, meta) in options"):
            continue
        elif s.startswith("#[cfg(yara_x_verif)]"):
            continue
        elif s.startswith("for module_name in ctx.compiled_rules.imports() {"):
            t = re.sub(r"\s+", "", s)
            need = ["user_provided_module_outputs.remove(root_struct_name)", "module.main_fn(&mutmod_ctx,data)",
                    "ctx.module_outputs.insert(root_struct_name.to_string(),module_output)",
                    "ctx.root_struct.add_field(module_name,TypeValue::Struct(module_struct))"]
            for nd in need:
                if nd not in t:
                    raise TranslateError(f"{where}: module loop changed (missing `{nd}`)")
            # order: user output is looked up before main_fn (else-if)
            lm = re.search(r"ifletSome\(output\)=(ctx\.)?user_provided_module_outputs\.remove\(root_struct_name\)\{module_output=Some\(output\);\}elseifletSome\(main_res\)=module\.main_fn\(", t)
            if not lm:
                raise TranslateError(f"{where}: module loop: user-supplied output / main_fn alternative changed")
            loop_uses_local = lm.group(1) is None
            early = "ScanError::ModuleError{" in t and "})?" in t
            # any other ctx mutation inside the loop?
            muts = re.findall(r"ctx\.([a-z_]+)\.(insert|remove|clear|push|add_field)\(", t)
            allowed = {("module_outputs", "insert"), ("root_struct", "add_field")} | (set() if loop_uses_local else {("user_provided_module_outputs", "remove")})
            extra = set(muts) - allowed
            if extra:
                raise TranslateError(f"{where}: module loop mutates unexpected state: {sorted(extra)}")
            yield_s = "SModuleLoop %s %s" % ("true" if early else "false", "true" if loop_uses_local else "false")
        else:
            raise TranslateError(f"{where}: statement not understood: `{s[:140]}`")
        out.append(yield_s)
    return out


def parse_scan_impl(scn_text):
    body = strip_comments(fn_body(scn_text, "scan_impl"))
    stmts = top_statements(body)
    # the prologue is everything up to and including eval_conditions
    idx = next((i for i, s in enumerate(stmts) if s == "ctx.eval_conditions()?;"), None)
    if idx is None:
        raise TranslateError("scan_impl: `ctx.eval_conditions()?;` not found")
    pro = ctx_effects(stmts[:idx + 1], "scan_impl")
    rest = stmts[idx + 1:]
    want = ["let data = match ctx.scan_state.take() { ScanState::ScanningData(data) => data, _ => unreachable!(), };",
            "ctx.scan_state = ScanState::Finished(DataSnippets::SingleBlock(data));", "Ok(ScanResults::new(ctx))"]
    if [re.sub(r"\s+", " ", x) for x in rest] != want:
        raise TranslateError("scan_impl: epilogue changed: " + " | ".join(rest)[:300])
    return pro + ["SSetScanState 4"]


def parse_blocks(blk_text):
    impl = blk_text
    scan = strip_comments(fn_body(impl, "scan", "blocks::Scanner::scan", start=impl.find("pub fn scan(")))
    st = top_statements(scan)
    if not st or not re.match(r"^if self\.needs_reset \{ self\.scan_context_mut\(\)\.reset\(\); self\.needs_reset = false; \} else \{ self\.scan_context_mut\(\)\.tracker\.unconfirmed_matches\.clear\(\); \}$", st[0]):
        raise TranslateError("blocks::Scanner::scan: reset-if-needed / clear-unconfirmed prologue changed: " + (st[0][:200] if st else ""))
    scan_s = ["SIfNeedsReset [SCallReset; SAssign blk_needs_reset IFalse] [SClear tracker_unconfirmed_matches]"]
    tail = []
    for s in st[1:]:
        if s.startswith("for (_, match_list) in ctx.tracker.pattern_matches.matches_per_pattern()"):
            if "self.snippets.entry(context_start)" not in s:
                raise TranslateError("blocks::Scanner::scan: snippet collection changed")
            tail.append("S SCollectSnippets"); continue
        if s == "Ok(self)":
            continue
        tail += ["S (%s)" % x if not x.startswith("SIf") else x for x in ctx_effects([s], "blocks::Scanner::scan")]
    fin = strip_comments(fn_body(impl, "finish", "blocks::Scanner::finish"))
    fs = top_statements(fin)
    # first statement: `if self.needs_reset { <reset, possibly followed by set_pattern_search_done(b)> }`
    m0 = re.match(r"^if self\.needs_reset \{ (.*) \}$", fs[0]) if fs else None
    if not m0:
        raise TranslateError("blocks::Scanner::finish: `if self.needs_reset {..}` not found: " + (fs[0][:200] if fs else ""))
    then_s = []
    for t in top_statements(m0.group(1)):
        if t in ("self.scan_context_mut().reset();", "ctx.reset();"):
            then_s.append("SCallReset")
        elif t == "let ctx = self.scan_context_mut();" or t.startswith("#[cfg(yara_x_verif)]"):
            continue
        elif re.match(r"^ctx\.set_pattern_search_done\((true|false)\);$", t):
            then_s.append("SSetGlobalPsd " + re.match(r"^ctx\.set_pattern_search_done\((true|false)\);$", t).group(1))
        else:
            raise TranslateError("blocks::Scanner::finish: statement not understood in the needs_reset branch: " + t[:160])
    if "SCallReset" not in then_s:
        raise TranslateError("blocks::Scanner::finish: the needs_reset branch no longer resets")
    rest = [x for x in fs[1:] if not x.startswith("#[cfg(yara_x_verif)]")]
    want_new = ["self.needs_reset = true;", "let ctx = self.scan_context_mut();", "let snippets = mem::take(&mut self.snippets);",
                "ctx.eval_conditions()?;", "ctx.scan_state = ScanState::Finished(DataSnippets::MultiBlock(snippets));", "Ok(ScanResults::new(ctx))"]
    want_old = ["self.needs_reset = true;", "let ctx = self.scan_context_mut();",
                "ctx.eval_conditions()?;", "ctx.scan_state = ScanState::Finished(DataSnippets::MultiBlock( mem::take(&mut self.snippets), ));", "Ok(ScanResults::new(ctx))"]
    head = ["SIfNeedsReset [%s] []" % "; ".join(then_s), "S (SAssign blk_needs_reset ITrue)"]
    if rest == want_new:
        fin_s = head + ["S STakeSnippets", "S SEval", "S (SSetScanState 4)"]
    elif rest == want_old:
        fin_s = head + ["S SEval", "S STakeSnippets", "S (SSetScanState 4)"]
    else:
        raise TranslateError("blocks::Scanner::finish changed: " + " | ".join(fs)[:400])
    m = re.search(r"impl<'r> From<crate::scanner::Scanner<'r>> for Scanner<'r> \{", impl)
    if not m:
        raise TranslateError("From<Scanner> for blocks::Scanner not found")
    fb = strip_comments(fn_body(impl, "from", "From<Scanner>", start=m.end()))
    fb = re.sub(r"\s+", "", fb)
    lit = "Self{_rules:scanner._rules,wasm_store:scanner.wasm_store,needs_reset:true,snippets:Default::default(),}"
    into_s = ["S (SAssign blk_needs_reset ITrue)", "S (SAssign blk_snippets IEmpty)"]
    if fb == lit:
        pass
    elif fb.startswith("letmutscanner=" + lit + ";letctx=scanner.scan_context_mut();") and fb.endswith(";scanner"):
        for t in fb[len("letmutscanner=" + lit + ";letctx=scanner.scan_context_mut();"):-len(";scanner")].split(";"):
            if t == "ctx.set_filesize(-1)":
                into_s.append("S SUndefFilesize")
            elif t == "ctx.clear_module_structs()":
                into_s.append("S SClearModuleStructs")
            else:
                raise TranslateError("From<Scanner> for blocks::Scanner: statement not understood: " + t[:120])
    else:
        raise TranslateError("From<Scanner> for blocks::Scanner changed: " + fb[:300])
    nb = re.sub(r"\s+", "", strip_comments(fn_body(impl, "new", "blocks::Scanner::new")))
    new_lit = "Scanner{_rules:rules,wasm_store:create_wasm_store_and_ctx(rules),needs_reset:true,snippets:BTreeMap::new(),}"
    # a new block scanner is a new scan context, optionally with the module structures of the compiler replaced
    # by empty ones (what From<Scanner> does too: in the model a block scanner is `fresh` + into_blocks)
    if nb not in (new_lit, "letmutscanner=" + new_lit + ";scanner.scan_context_mut().clear_module_structs();scanner"):
        raise TranslateError("blocks::Scanner::new changed: " + nb[:200])
    return scan_s + tail, fin_s, into_s


def parse_timeout(ctx_text, wasm_text):
    t = strip_comments(ctx_text)
    m = re.search(r"const DEFAULT_SCAN_TIMEOUT: u64 = ([0-9_]+);", t)
    if not m:
        raise TranslateError("DEFAULT_SCAN_TIMEOUT not found")
    default = int(m.group(1).replace("_", ""))
    ac = re.sub(r"\s+", "", strip_comments(fn_body(ctx_text, "ac_search_loop")))
    polls = re.findall(r"ifHEARTBEAT_COUNTER\.load\(Ordering::Relaxed\)(>=|>|==)self\.deadline\{return(?:ControlFlow::Break\(ScanError::Timeout\)|Err\(ScanError::Timeout\));\}", ac)
    if len(polls) != 2:
        raise TranslateError(f"ac_search_loop: expected 2 deadline polls, found {len(polls)}")
    if set(polls) != {">="}:
        raise TranslateError("ac_search_loop: deadline comparison changed: " + str(polls))
    # each poll precedes handle_atom_match in its loop body
    if len(re.findall(r"self\.handle_atom_match\(", ac)) != 2:
        raise TranslateError("ac_search_loop: expected 2 handle_atom_match call sites")
    sp = re.sub(r"\s+", "", strip_comments(fn_body(ctx_text, "search_for_patterns")))
    sets_timeout = "Err(ScanError::Timeout)=>{self.scan_state=ScanState::Timeout;Err(ScanError::Timeout)}" in sp
    restores = "Ok(_)=>{self.scan_state=state;Ok(())}" in sp
    if not restores:
        raise TranslateError("search_for_patterns: scan state is no longer restored after a complete search")
    host = re.sub(r"\s+", "", strip_comments(fn_body(wasm_text, "search_for_patterns")))
    host = re.sub(r"#\[cfg\(yara_x_verif\)\][^;]*;", "", host)
    forces = host == "ifmatches!(caller.data_mut().search_for_patterns(),Err(ScanError::Timeout)){caller.as_context_mut().set_epoch_deadline(0);}"
    ev = re.sub(r"\s+", "", strip_comments(fn_body(ctx_text, "eval_conditions")))
    maps = "Ok(0)=>matchself.scan_state{ScanState::Timeout=>Err(ScanError::Timeout),_=>Ok(()),}" in ev
    err_passthrough = "Err(err)iferr.is::<ScanError>()=>{Err(err.downcast::<ScanError>().unwrap())}" in ev
    drains = "forrulesinself.matching_rules_per_ns.values_mut(){forrule_idinrules.drain(0..){self.matching_rules.push(rule_id);}}" in ev
    # verify_anchored_patterns: the anchor of a pattern used as `$a at N` relative to the block
    va = re.sub(r"\s+", "", strip_comments(fn_body(ctx_text, "verify_anchored_patterns")))
    for need in ("anchored_at:Some(offset),", "verify_literal(pattern,data,offset,*flags)", "Match::new(offset..offset+pattern.len()).rebase(base)"):
        if need not in va:
            raise TranslateError("verify_anchored_patterns changed (missing `%s`)" % need)
    if "iflet(offset,false)=offset.overflowing_sub(base){" in va:
        anchored_skip = True
    elif re.search(r"letoffset=offset\.(saturating|wrapping)_sub\(base\);", va):
        anchored_skip = False
    else:
        raise TranslateError("verify_anchored_patterns: how the anchor is made relative to the block's base is not understood")
    # search_for_patterns: the pruning steps (everything that disables a pattern before the search) and their guards
    sp_all = re.sub(r"\s+", "", strip_comments(fn_body(ctx_text, "search_for_patterns")))
    fs_loop = "letfilesize=self.get_filesize();for(pattern_id,bounds)inself.compiled_rules.filesize_bounds(){if!bounds.contains(filesize){self.tracker.disabled_patterns.insert(*pattern_id);}}"
    if "if!block_scanning_mode{" + fs_loop + "}" in sp_all:
        fs_guard = True
    elif fs_loop in sp_all:
        fs_guard = False
    else:
        raise TranslateError("search_for_patterns: the filesize-bounds pruning step is not understood")
    hdr_plain = "for(pattern_id,constraints)inself.compiled_rules.header_constraints(){if!constraints.is_satisfied(data){self.tracker.disabled_patterns.insert(*pattern_id);}}"
    hdr_cover = "for(pattern_id,constraints)inself.compiled_rules.header_constraints(){if(!block_scanning_mode||constraints.is_decidable(data))&&!constraints.is_satisfied(data){self.tracker.disabled_patterns.insert(*pattern_id);}}"
    if "ifbase==0{" + hdr_plain + "}" in sp_all:
        hdr_base0, hdr_covering = True, False
    elif "ifbase==0{" + hdr_cover + "}" in sp_all:
        hdr_base0, hdr_covering = True, True
    elif hdr_plain in sp_all:
        hdr_base0, hdr_covering = False, False
    elif hdr_cover in sp_all:
        hdr_base0, hdr_covering = False, True
    else:
        raise TranslateError("search_for_patterns: the header-constraints pruning step is not understood")
    if sp_all.count("disabled_patterns.insert(") != 2:
        raise TranslateError("search_for_patterns: a pruning step other than filesize bounds / header constraints disables patterns")
    rules_text = src("lib/src/compiler/rules.rs")
    sat = re.sub(r"\s+", "", strip_comments(fn_body(rules_text, "is_satisfied", "HeaderConstraint::is_satisfied")))
    if sat != "matchself{Self::Unconstrained=>true,Self::Unsatisfiable=>false,Self::Constrained(bytes)=>data.starts_with(bytes),}":
        raise TranslateError("HeaderConstraint::is_satisfied changed: " + sat[:200])
    if hdr_covering:
        dec = re.sub(r"\s+", "", strip_comments(fn_body(rules_text, "is_decidable", "HeaderConstraint::is_decidable")))
        if dec != "matchself{Self::Constrained(bytes)=>data.len()>=bytes.len(),_=>true,}":
            raise TranslateError("HeaderConstraint::is_decidable changed: " + dec[:200])
    return dict(fs_guard=fs_guard, hdr_base0=hdr_base0, hdr_covering=hdr_covering, anchored_skip=anchored_skip, default=default, sets_timeout=sets_timeout, forces=forces, maps=maps, err_passthrough=err_passthrough, drains=drains)


def fn_bodies(code):
    """name -> body (whitespace removed) of every top-level `fn` in a module file"""
    out = {}
    for fm in re.finditer(r"\bfn\s+([a-z_0-9]+)\s*(<[^>]*>)?\s*\(", code):
        try:
            out[fm.group(1)] = re.sub(r"\s+", "", fn_body(code, fm.group(1), start=fm.start()))
        except TranslateError:
            pass
    return out


def scan_scoped(mod, code, caches):
    """Which caches of the module are dropped when a function runs during a scan other than the one
    that filled them (ScanContext::first_use_in_scan)?  Every function that touches such a cache must
    make that check before touching it."""
    c = re.sub(r"\s+", "", code)
    if "first_use_in_scan" not in c:
        return set()
    if "staticCACHE_SCAN_ID:Cell<u64>=const{Cell::new(0)};" not in c:
        raise TranslateError(f"module {mod}: first_use_in_scan without the CACHE_SCAN_ID thread-local")
    bodies = fn_bodies(code)
    guard = "ifctx.first_use_in_scan(&CACHE_SCAN_ID){"
    holders = [n for n, b in bodies.items() if guard in b]
    if len(holders) != 1:
        raise TranslateError(f"module {mod}: expected exactly one function checking first_use_in_scan, found {holders}")
    d = holders[0]
    b = bodies[d]
    i = b.index(guard) + len(guard) - 1
    inner = b[i + 1:match_brace(b, i)]
    clr = lambda name, text: (name + ".with(|cache|cache.borrow_mut().clear())") in text or (name + ".with(|cache|*cache.borrow_mut()=None)") in text
    helper = None
    hm = re.fullmatch(r"([a-z_0-9]+)\(\);", inner)
    if hm:
        helper = hm.group(1)
        if helper not in bodies:
            raise TranslateError(f"module {mod}: {helper}() called on a new scan is not defined in the module")
        inner = bodies[helper]
    scoped = {n for n in caches if clr(n, inner)}
    if not scoped:
        raise TranslateError(f"module {mod}: the first_use_in_scan branch clears no cache")
    for fname, body in bodies.items():
        if fname in ("main", helper):
            continue
        touched = [body.index(n + ".with(") for n in scoped if (n + ".with(") in body]
        if not touched:
            continue
        first = min(touched)
        if fname == d:
            ok = body.index(guard) < first or body.index(guard) + len(guard) > first  # the clearing inside the guard itself
            ok = body.index(guard) <= first
        else:
            call = d + "(ctx);"
            ok = call in body and body.index(call) < first
        if not ok:
            raise TranslateError(f"module {mod}: fn {fname} reads a per-scan cache before checking first_use_in_scan")
    return scoped


def parse_thread_locals():
    root = os.path.join(REPO, "lib/src/modules")
    res = []
    files = sorted(glob.glob(os.path.join(root, "**", "*.rs"), recursive=True))
    for p in files:
        rel = os.path.relpath(p, root)
        if "tests" in rel.split(os.sep) or rel.endswith("tests.rs"):
            continue
        txt = open(p, encoding="utf-8").read()
        if "thread_local!" not in txt:
            continue
        code = strip_comments(txt)
        mod = rel.split(os.sep)[0].replace(".rs", "")
        found = []
        for m in re.finditer(r"thread_local!\s*[\(\{]", code):
            j = match_brace(code, m.end() - 1, code[m.end() - 1], ")" if code[m.end() - 1] == "(" else "}")
            blk = code[m.end():j]
            for sm in re.finditer(r"static\s+([A-Z_0-9]+)\s*:\s*([^=]+?)\s*=", blk):
                name, ty = sm.group(1), re.sub(r"\s+", "", sm.group(2))
                if not (ty.startswith("RefCell<") or ty.startswith("Cell<")):
                    continue  # not mutable per-thread state (e.g. the libmagic cookie)
                if name == "CACHE_SCAN_ID" and ty == "Cell<u64>":
                    continue  # the tag saying which scan the module's caches belong to
                try:
                    main = strip_comments(fn_body(code, "main"))
                except TranslateError:
                    main = ""
                mainc = re.sub(r"\s+", "", main)
                bodies = fn_bodies(code)
                # main may clear through a local helper (hash: clear_caches())
                for hn, hb in bodies.items():
                    if hn != "main" and re.search(r"(^|[;{}])" + hn + r"\(\);", mainc):
                        mainc += hb
                cleared = bool(re.search(re.escape(name) + r"\.with\(\|[a-z_]+\|(\*?[a-z_]+\.borrow_mut\(\)\.clear\(\)|\*[a-z_]+\.borrow_mut\(\)=None)\)", mainc)) \
                    or (name + ".set(None);") in mainc
                if not cleared:
                    # main calls a local setter on every path (cuckoo: set_local)
                    for fm in re.finditer(r"fn\s+([a-z_]+)\s*\([^)]*\)\s*\{", code):
                        fname = fm.group(1)
                        if fname == "main":
                            continue
                        fb = re.sub(r"\s+", "", code[fm.end():match_brace(code, fm.end() - 1)])
                        if re.search(re.escape(name) + r"\.with\(\|[a-z_]+\|\{?\*[a-z_]+\.borrow_mut\(\)=", fb):
                            calls = len(re.findall(r"\b" + fname + r"\(", mainc))
                            exits = len(re.findall(r"return", mainc)) + 1
                            if calls >= exits and calls > 0:
                                cleared = True
                found.append((name, cleared))
        scoped = scan_scoped(mod, code, [n for n, _ in found])
        for name, cleared in found:
            res.append((mod, name, cleared, name in scoped))
    if not res:
        raise TranslateError("no module thread-locals found (expected hash/math/pe/...)")
    return res


STD_CONTAINERS = re.compile(r"^(IndexMap|FxHashMap|FxHashSet|Vec|HashMap|BTreeMap)<")


def parse_pattern_matches_clear():
    """PatternMatches::clear(): its branches.  Every branch must be one of the understood shapes:
    all lists dropped with their keys, every list cleared in place, or (recognised so that the model can
    follow it) some lists kept as they are."""
    text = src("lib/src/scanner/matches.rs")
    impl = impl_block(text, r"impl PatternMatches\s*\{", "impl PatternMatches")
    b = re.sub(r"\s+", "", strip_comments(fn_body(impl, "clear", "PatternMatches::clear")))
    m = re.fullmatch(r"ifself\.capacity>([0-9_]+)\{(.*)\}else\{(.*)\}", b)
    if not m:
        raise TranslateError("PatternMatches::clear: expected `if self.capacity > N {..} else {..}`: " + b[:200])
    def branch(t):
        if t == "self.matches.clear();self.capacity=0;":
            return "PMDropAll"
        if t == "formatchesinself.matches.values_mut(){matches.clear();}":
            return "PMClearEach"
        if "self.matches.retain(" in t and "matches.clear()" not in t:
            return "PMKeepSome"     # some lists survive with their content
        raise TranslateError("PatternMatches::clear: branch not understood: " + t[:200])
    # every other use of the capacity counter must keep it in step with the lists (add())
    add = re.sub(r"\s+", "", strip_comments(fn_body(impl, "add", "PatternMatches::add")))
    for need in ("self.capacity-=matches.capacity();", "self.capacity+=matches.capacity();"):
        if need not in add:
            raise TranslateError("PatternMatches::add no longer maintains the total capacity (`%s`)" % need)
    return int(m.group(1).replace("_", "")), branch(m.group(2)), branch(m.group(3))


def parse_match_list_add():
    """MatchList::add: what the two same-start arms do with the end and the base of the listed match"""
    text = src("lib/src/scanner/matches.rs")
    impl = impl_block(text, r"impl MatchList\s*\{", "impl MatchList")
    b = re.sub(r"\s+", "", strip_comments(fn_body(impl, "add", "MatchList::add")))
    for need in ("Some(last)ifnew_match.range.start>last.range.start=>{self.matches.push(new_match);true}",
                 "None=>{self.matches.push(new_match);true}",
                 "Err(index)=>{self.matches.insert(index,new_match);true}",
                 ".binary_search_by_key(&new_match.range.start,|m|{m.range.start})"):
        if need not in b:
            raise TranslateError("MatchList::add changed (missing `%s`)" % need)
    tm = re.search(r"Some\(last\)ifnew_match\.range\.start==last\.range\.start=>\{ifreplace_if_longer(&&last\.range\.end<new_match\.range\.end)?\{last\.range\.end=new_match\.range\.end;(last\.base=new_match\.base;)?\}false\}", b)
    if not tm:
        raise TranslateError("MatchList::add: the `same start as the last match` arm is not understood")
    tail_longer = tm.group(1) is not None
    tail_base = tm.group(2) is not None
    head = "Ok(index)ifreplace_if_longer=>{letexisting_match=&mutself.matches[index];"
    if head not in b:
        raise TranslateError("MatchList::add: the binary-search replace arm is not understood")
    rest = b[b.index(head) + len(head):]
    m1 = re.match(r"ifexisting_match\.range\.end<new_match\.range\.end\{existing_match\.range\.end=new_match\.range\.end;(existing_match\.base=new_match\.base;)?\}false\}", rest)
    m2 = re.match(r"existing_match\.range\.end=cmp::max\(existing_match\.range\.end,new_match\.range\.end,?\);(existing_match\.base=new_match\.base;)?false\}", rest)
    if m1:
        bs_base = m1.group(1) is not None
    elif m2:
        bs_base = False   # an unconditional base assignment after max() would not follow the longer match either
    else:
        raise TranslateError("MatchList::add: the binary-search replace arm is not understood: " + rest[:160])
    return tail_base, bs_base, tail_longer


def main():
    ctx_text, scn_text, blk_text, wasm_text = src(CTX), src(SCN), src(BLK), src(WASM)
    groups = [
        ("ctx", struct_fields(ctx_text, r"pub struct ScanContext<'r, 'd>\s*\{", "struct ScanContext"), ""),
        ("tracker", struct_fields(ctx_text, r"pub\(crate\) struct MatchTracker<'r>\s*\{", "struct MatchTracker"), "tracker."),
        ("wasm", struct_fields(ctx_text, r"pub\(crate\) struct WasmState\s*\{", "struct WasmState"), "wasm."),
        ("scn", struct_fields(scn_text, r"pub struct Scanner<'r>\s*\{", "struct Scanner"), None),
        ("blk", struct_fields(blk_text, r"pub struct Scanner<'r>\s*\{", "struct blocks::Scanner"), None),
    ]
    fields = []
    for g, fl, path in groups:
        for name, ty, cfg in fl:
            cname = f"{g}_{name}".replace("__", "_")
            fields.append((cname, g, name, ty, cfg))
            if path is not None:
                PATH2FIELD[path + name] = cname
    names = [f[0] for f in fields]
    if len(set(names)) != len(names):
        raise TranslateError("duplicate field names")
    for need in ("ctx_scan_state", "tracker_pattern_matches", "wasm_filesize", "blk_needs_reset", "blk_snippets", "ctx_deadline"):
        if need not in names:
            raise TranslateError(f"expected field {need} is gone")
    init, globs = parse_creation(ctx_text)
    # Scanner::new / blocks::Scanner::new
    sn = re.sub(r"\s+", "", strip_comments(fn_body(scn_text, "new", "Scanner::new", start=scn_text.find("impl<'r> Scanner<'r> {"))))
    if sn != "letwasm_store=create_wasm_store_and_ctx(rules);Self{_rules:rules,wasm_store,use_mmap:true,max_scan_size:None}":
        raise TranslateError("Scanner::new changed: " + sn[:200])
    init.update({"scn_rules": 'IOther "rules"', "scn_wasm_store": 'IOther "store"', "scn_use_mmap": "ITrue", "scn_max_scan_size": "INone"})
    reset = parse_reset(ctx_text)
    ftype = {c: ty for c, _, _, ty, _ in fields}
    for st in re.findall(r"SClear ([a-z_]+)", " ".join(reset) + " " + " ".join(parse_scan_impl(scn_text)) + " " + " ".join(parse_blocks(blk_text)[0])):
        ty = ftype.get(st, "")
        if STD_CONTAINERS.match(ty):
            continue                      # std / indexmap / hashbrown clear(): empties the container unconditionally
        if ty == "PatternMatches":
            continue                      # translated branch by branch below
        raise TranslateError(f"`{st}.clear()`: clear() of type `{ty}` is not a std container and has not been translated")
    pm_threshold, pm_over, pm_under = parse_pattern_matches_clear()
    scan_impl = parse_scan_impl(scn_text)
    blk_scan, blk_fin, into_s = parse_blocks(blk_text)
    init.update({"blk_rules": 'IOther "rules"', "blk_wasm_store": 'IOther "store"', "blk_needs_reset": "ITrue", "blk_snippets": "IEmpty"})
    for n in names:
        if n not in init:
            raise TranslateError(f"no creation-time value found for field {n}")
    if "S SClearModuleStructs" in into_s:
        cb = re.sub(r"\s+", "", strip_comments(fn_body(ctx_text, "clear_module_structs")))
        for need in ("formodule_nameinself.compiled_rules.imports(){", "Struct::from_proto_descriptor_and_msg(&module.root_descriptor(),None,",
                     "self.root_struct.add_field(module_name,TypeValue::Struct(module_struct));"):
            if need not in cb:
                raise TranslateError("ScanContext::clear_module_structs changed (missing `%s`)" % need)
    if "S SNewScanId" in reset:
        fb = re.sub(r"\s+", "", strip_comments(fn_body(ctx_text, "first_use_in_scan")))
        if fb != "last_scan_id.with(|id|id.replace(self.scan_id)!=self.scan_id)":
            raise TranslateError("ScanContext::first_use_in_scan changed: " + fb[:200])
    ml_tail_base, ml_bs_base, ml_tail_longer = parse_match_list_add()
    # blocks::Scanner::scan: which listed matches get a snippet after a block
    bsn = re.sub(r"\s+", "", strip_comments(fn_body(blk_text, "scan", "blocks::Scanner::scan", start=blk_text.find("pub fn scan("))))
    if "match_list.iter().filter(|match_|{match_.base==base&&match_.range.end<=base+data.len()})" in bsn:
        snippet_filter = "base_and_end"
    elif "match_list.iter().filter(|match_|match_.base==base)" in bsn:
        snippet_filter = "base_only"
    else:
        raise TranslateError("blocks::Scanner::scan: which matches get a snippet is not understood")
    for need in ("letcontext_start=cmp::max(match_.range.start.saturating_sub(ctx.match_context_size),base,);",
                 "matchself.snippets.entry(context_start){Entry::Occupied(mutentry)=>{letsnippet=entry.get_mut();ifcontext_data.len()>snippet.len(){entry.insert(context_data.to_vec());}}Entry::Vacant(entry)=>{entry.insert(context_data.to_vec());}}"):
        if need not in bsn:
            raise TranslateError("blocks::Scanner::scan: snippet collection changed (missing `%s`)" % need[:60])
    tmo = parse_timeout(ctx_text, wasm_text)
    tls = parse_thread_locals()

    o = []
    o.append("(* GENERATED by translate/gen_scanstate.py from lib/src/scanner/{context,mod,blocks}.rs,\n   lib/src/wasm/mod.rs and lib/src/modules -- do not edit; regenerated on every check. *)")
    o.append("From Coq Require Import List String NArith ZArith Bool.\nImport ListNotations.\nLocal Open Scope string_scope.\n")
    o.append("(* fields of ScanContext (ctx_), MatchTracker (tracker_), WasmState (wasm_), Scanner (scn_), blocks::Scanner (blk_) *)")
    o.append("Inductive field : Set :=\n" + "\n".join("| " + n for n in names) + ".")
    o.append("Scheme Equality for field.")
    o.append("Definition all_fields : list field :=\n  [" + "; ".join(names) + "].")
    o.append("Definition field_name (f : field) : string :=\n  match f with\n" + "\n".join(f'  | {c} => "{g}.{n}"' for c, g, n, _, _ in fields) + "\n  end.")
    o.append("(* cfg attribute guarding the field, if any *)\nDefinition field_cfg (f : field) : string :=\n  match f with\n" + "\n".join(f'  | {c} => "{cfg}"'.replace('"', "'").replace("=> '", '=> "')[:-1] + '"' for c, _, _, _, cfg in fields if cfg) + '\n  | _ => ""\n  end.')
    o.append("(* creation-time values *)\nInductive ival := IEmpty | INone | IZero | IFalse | ITrue | IIdle | IOther (s : string).")
    o.append("Definition init_value (f : field) : ival :=\n  match f with\n" + "\n".join(f"  | {c} => {init[c]}" for c in names) + "\n  end.")
    o.append(f"Definition filesize_global_init : Z := ({globs['filesize']})%Z.\nDefinition pattern_search_done_global_init : Z := ({globs['pattern_search_done']})%Z.")
    o.append("""(* statements *)
Inductive sstmt :=
| SClear (f : field) | SAssign (f : field) (v : ival) | SDrain (src dst : field)
| SFillBitmaps (rules patterns : bool)
| SSetDeadline | SSetEpochDeadline | SSetEpochCallback | SStartHeartbeatIfTimeout
| SNewScanId
| SCallReset | SSetGlobalFilesize | SUndefFilesize | SClearModuleStructs
| SSetGlobalPsd (b : bool) | SSetScanState (tag : N)
| STakeUserOutputs | SDropUserOutputs
| SModuleLoop (early_return_on_module_error : bool) (user_outputs_in_local : bool)
| SSearch | SEval | SCollectSnippets | STakeSnippets.
Inductive stmt :=
| S (s : sstmt)
| SIfNonEmpty (g : list field) (body : list sstmt)
| SIfNeedsReset (then_ else_ : list sstmt).""")
    o.append("(* ScanContext::reset() *)\nDefinition reset_body : list stmt :=\n  [ " + ";\n    ".join(reset) + " ]%N.")
    o.append("(* Scanner::scan_impl: everything up to eval_conditions, then the epilogue *)\nDefinition scan_impl_body : list stmt :=\n  [ " + ";\n    ".join("S (%s)" % s for s in scan_impl) + " ]%N.")
    o.append("(* blocks::Scanner::scan *)\nDefinition block_scan_body : list stmt :=\n  [ " + ";\n    ".join(blk_scan) + " ]%N.")
    o.append("(* blocks::Scanner::finish *)\nDefinition block_finish_body : list stmt :=\n  [ " + ";\n    ".join(blk_fin) + " ]%N.")
    o.append("(* From<Scanner> for blocks::Scanner *)\nDefinition into_blocks_body : list stmt :=\n  [ " + ";\n    ".join(into_s) + " ].")
    o.append(f"""(* timeouts *)
Definition DEFAULT_SCAN_TIMEOUT : N := {tmo['default']}%N.
Definition ac_search_poll_sites : N := 2%N.   (* `HEARTBEAT_COUNTER >= self.deadline` before every handle_atom_match *)
Definition search_timeout_sets_state_timeout : bool := {str(tmo['sets_timeout']).lower()}.
Definition host_search_forces_epoch_deadline_zero : bool := {str(tmo['forces']).lower()}.
Definition eval_maps_state_timeout_to_error : bool := {str(tmo['maps']).lower()}.
Definition eval_passes_wasm_timeout_error : bool := {str(tmo['err_passthrough']).lower()}.
Definition eval_drains_matching_rules_before_result : bool := {str(tmo['drains']).lower()}.

(* PatternMatches::clear(): `if self.capacity > threshold {{ over }} else {{ under }}` *)
Inductive pm_branch := PMDropAll     (* self.matches.clear(); self.capacity = 0 *)
                     | PMClearEach   (* for matches in self.matches.values_mut() {{ matches.clear() }} *)
                     | PMKeepSome.   (* some lists are kept with their content *)
Definition pm_clear_threshold : N := {pm_threshold}%N.
Definition pm_clear_over : pm_branch := {pm_over}.
Definition pm_clear_under : pm_branch := {pm_under}.

(* MatchList::add, the two arms for a match whose start is already listed (replace_if_longer = true):
   the `same start as the last match` arm takes the new end; the binary-search arm takes it when longer.
   Does the listed match also take the base of the block the new match was found in? *)
Definition ml_tail_arm_moves_base : bool := {str(ml_tail_base).lower()}.
(* does the `same start as the last match` arm compare the ends (replace only when longer) or overwrite the end? *)
Definition ml_tail_arm_only_if_longer : bool := {str(ml_tail_longer).lower()}.
Definition ml_search_arm_moves_base : bool := {str(ml_bs_base).lower()}.
(* blocks::Scanner::scan stores a snippet for the listed matches whose base is the block's base
   (and, since the shorter-block fix, that end inside the block) *)
Definition snippet_filter_checks_end : bool := {str(snippet_filter == "base_and_end").lower()}.

(* search_for_patterns, the pruning steps and their guards: filesize bounds only when scanning contiguous data;
   header constraints (`data.starts_with(header)`) only for a block whose base is 0 and, in block mode, only
   when the block is long enough to contain the header *)
Definition filesize_pruning_only_contiguous : bool := {str(tmo['fs_guard']).lower()}.
Definition header_pruning_only_at_base_zero : bool := {str(tmo['hdr_base0']).lower()}.
Definition header_pruning_requires_covering_block : bool := {str(tmo['hdr_covering']).lower()}.

(* verify_anchored_patterns: `offset.overflowing_sub(base)`, the block is skipped when its base is past the anchor *)
Definition anchored_skips_block_past_offset : bool := {str(tmo['anchored_skip']).lower()}.""")
    tl_names = [f"tl_{m}_{n}" for m, n, _, _ in tls]
    o.append("(* per-thread caches of the modules (thread_local! RefCell/Cell statics) *)\nInductive tl_cache : Set :=\n" + "\n".join("| " + n for n in tl_names) + ".")
    o.append("Scheme Equality for tl_cache.")
    o.append("Definition all_tl_caches : list tl_cache :=\n  [" + "; ".join(tl_names) + "].")
    o.append("Definition tl_module (t : tl_cache) : string :=\n  match t with\n" + "\n".join(f'  | tl_{m}_{n} => "{m}"' for m, n, _, _ in tls) + "\n  end.")
    o.append("(* is the cache re-initialised by the module's main function? *)\nDefinition tl_cleared_by_main (t : tl_cache) : bool :=\n  match t with\n" + "\n".join(f"  | tl_{m}_{n} => {str(c).lower()}" for m, n, c, _ in tls) + "\n  end.")
    o.append("(* is the cache dropped whenever one of the module's functions runs during a scan other than the\n   one that filled it (ScanContext::first_use_in_scan, checked before every access)? *)\nDefinition tl_scan_scoped (t : tl_cache) : bool :=\n  match t with\n" + "\n".join(f"  | tl_{m}_{n} => {str(sc).lower()}" for m, n, _, sc in tls) + "\n  end.")
    write_if_changed("ScanState.v", "\n\n".join(o) + "\n")


if __name__ == "__main__":
    main()
