#!/usr/bin/env python3
"""Gen/SnapshotGen.v from lib/src/compiler/mod.rs.

* `field`            : inductive with one constructor per field of `struct Compiler`
* `snapshot_def`     : what take_snapshot() stores (LenOf f | ValOf f) per Snapshot field
* `restore_def`      : what restore_snapshot() does (Truncate | Assign | RetainBelow)
* `mutations`        : every syntactic mutation of a Compiler field reachable from the
                       *fallible region* of c_rule (from `take_snapshot()` up to the comment
                       "after every fallible function has been called"), following calls
                       to other `self.<method>(..)` of impl Compiler transitively.
"""
import re
from tlib import *

SNAP_BEGIN = "let snapshot = self.take_snapshot();"
SNAP_END_MARK = "after every fallible function"

# method name -> mutation kind
MUT_METHODS = {
    "push": "Append", "extend": "Append", "extend_from_slice": "Append", "append": "Append",
    "push_str": "Append", "add": "Append",
    "insert": "Insert", "entry": "Insert",
    "incr": "Incr",
    "set": "SetExisting", "last_mut": "MutExisting", "get_mut": "MutExisting", "iter_mut": "MutExisting",
    "values_mut": "MutExisting",
    "get_or_intern": "Intern",
    "truncate": "Shrink", "clear": "Shrink", "remove": "Shrink", "pop": "Shrink", "retain": "Shrink",
    "drain": "Shrink", "take": "Shrink",
    "hoisting": "MutExisting",   # self.ir.hoisting() rewrites the IR of the current rule
}
# read-only methods that may follow `self.<field>.`
READ_METHODS = {
    "len", "get", "contains", "contains_key", "iter", "is_empty", "as_slice", "as_ref", "last", "first",
    "span_to_code_loc", "get_current_source_id", "filesize_bounds", "header_constraints", "clone",
    "borrow", "is_some", "is_none", "as_str", "to_string", "get_bytes", "get_str", "keys", "values",
    "id", "ident_id", "symbols", "lookup", "0", "unwrap", "map", "as_mut", "as_deref", "and_then", "unwrap_or",
    "get_or_default", "filter", "any", "all", "enumerate", "green", "create_report",
}


def struct_fields(text, name):
    body, _, _ = block_after(text, r"\bstruct\s+" + name + r"\b[^{;]*\{", f"struct {name}")
    body = strip_comments(body)
    body = re.sub(r"#\[[^\]]*\]", "", body)
    fields = []
    depth = 0
    cur = ""
    for ch in body:
        if ch in "<([{": depth += 1
        elif ch in ">)]}": depth -= 1
        if ch == "," and depth == 0:
            fields.append(cur); cur = ""
        else:
            cur += ch
    if cur.strip(): fields.append(cur)
    out = []
    for f in fields:
        m = re.match(r"\s*(?:pub(?:\([^)]*\))?\s+)?([a-z_][a-z_0-9]*)\s*:", f, re.S)
        if not m:
            if f.strip(): raise TranslateError(f"struct {name}: cannot parse field {f.strip()[:60]!r}")
            continue
        out.append(m.group(1))
    if not out: raise TranslateError(f"struct {name}: no fields")
    return out


def compiler_impl(text):
    """concatenation of every inherent `impl Compiler` block"""
    parts = []
    for m in re.finditer(r"^impl(?:<'a>)?\s+Compiler<(?:'a|'_)>\s*\{", text, re.M):
        j = match_brace(text, m.end() - 1)
        parts.append(text[m.end():j])
    if not parts: raise TranslateError("impl Compiler not found")
    return "\n".join(parts)


def method_names(impl):
    return set(re.findall(r"\bfn\s+([a-z_][a-z_0-9]*)\s*[<(]", impl))


def scan_mutations(code, fields, where, out, opaque_ok=True):
    """collect (field, kind) from a code fragment"""
    code = strip_comments(code)
    for m in re.finditer(r"\bself\s*\.\s*([a-z_][a-z_0-9]*)\b(\s*\.\s*([a-z_0-9]+)\s*(\(|\b))?", code):
        f = m.group(1)
        pre = code[max(0, m.start() - 12):m.start()]
        if f not in fields:
            continue  # a method call self.method(..) handled elsewhere
        is_mut_ref = re.search(r"&mut\s*$", pre) is not None
        meth = m.group(3)
        after = code[m.end():m.end() + 3]
        if is_mut_ref:
            out.add((f, "PassMut")); continue
        # assignment self.f = ...
        tail = code[m.start(1) + len(f):]
        if re.match(r"\s*=[^=]", tail):
            out.add((f, "AssignK")); continue
        if re.match(r"\s*(\+=|-=)", tail):
            out.add((f, "Incr")); continue
        if meth is None:
            continue
        if meth in MUT_METHODS and m.group(4) == "(":
            out.add((f, MUT_METHODS[meth])); continue
        if meth in READ_METHODS or m.group(4) != "(":
            continue
        raise TranslateError(f"{where}: unknown method `.{meth}(` on Compiler field `{f}`; classify it in gen_snapshot.py")


def fallible_exits(code):
    """Linear scan with a stack of blocks. A block is 'restored' once
    `self.restore_snapshot(snapshot)` has been seen in it or in an enclosing
    block. Returns [(description, restored?)] for every `return` and `?`."""
    exits = []
    stack = [False]
    i, n = 0, len(code)
    tok = re.compile(r"self\s*\.\s*restore_snapshot\s*\(\s*snapshot\s*\)|\breturn\b|\?\s*[;)\n.,]|[{}]|\"(?:[^\"\\]|\\.)*\"")
    line = lambda pos: code.count("\n", 0, pos) + 1
    for m in tok.finditer(code):
        t = m.group(0)
        if t == "{": stack.append(stack[-1])
        elif t == "}":
            if len(stack) > 1: stack.pop()
        elif t.startswith('"'): continue
        elif t.startswith("self"): stack[-1] = True
        elif t == "return":
            rest = code[m.end():m.end() + 60].strip().split("\n")[0]
            # `return Ok(())`-like early success exits inside error handling are
            # still exits after restore; record all of them
            exits.append((f"return {rest[:40]}".replace('"', "'"), stack[-1]))
        else:  # the ? operator
            before = code[max(0, m.start() - 50):m.start()].strip().split("\n")[-1]
            exits.append((f"{before[-40:]}?".replace('"', "'"), stack[-1]))
    if not exits:
        raise TranslateError("c_rule: no error exit found in the fallible region (shape changed?)")
    return exits


def add_source_exits(impl):
    """add_source: per-source state (the warning suppressions registered by the
    WarningSuppressionHook while the source is parsed) must be dropped on every
    way out of the call once the hook exists. Pinned shape: the hook is created
    in the `Ok(src)` arm of `match src.as_str()`; the other arm leaves at once;
    after that `match` statement every `return`, `?` and the final value of the
    function is an exit, recorded with whether `self.warnings.clear_suppressed()`
    was executed on the way to it."""
    body = strip_comments(fn_body(impl, "add_source"))
    if body.count("WarningSuppressionHook") != 1:
        raise TranslateError("add_source: expected exactly one WarningSuppressionHook")
    m = re.search(r"let\s+ast\s*=\s*match\s+src\s*\.\s*as_str\s*\(\s*\)\s*\{", body)
    if not m: raise TranslateError("add_source: `let ast = match src.as_str() {` not found")
    end = match_brace(body, m.end() - 1)
    arms = body[m.end():end]
    ok = re.search(r"Ok\s*\(\s*src\s*\)\s*=>\s*\{", arms)
    er = re.search(r"Err\s*\(\s*err\s*\)\s*=>\s*\{", arms)
    if not ok or not er or er.start() < ok.start():
        raise TranslateError("add_source: arms of `match src.as_str()` not understood")
    ok_end = match_brace(arms, ok.end() - 1)
    ok_arm = arms[ok.end():ok_end]
    if "WarningSuppressionHook" not in ok_arm or re.search(r"\breturn\b|\?\s*[;)\n.,]", ok_arm):
        raise TranslateError("add_source: the Ok arm must create the hook and cannot leave the function")
    if "suppress" in arms[er.end():match_brace(arms, er.end() - 1)]:
        raise TranslateError("add_source: the Err arm touches suppressions")
    if "suppress" in body[:m.start()]:
        raise TranslateError("add_source: suppressions touched before the source is parsed")
    rest = body[end + 1:]
    # per block: (suppressions cleared, parser errors appended to self.errors)
    exits, stack = [], [(False, False)]
    tok = re.compile(r"self\s*\.\s*warnings\s*\.\s*clear_suppressed\s*\(\s*\)|self\s*\.\s*errors\s*\.\s*extend\s*\(\s*ast\s*\.\s*into_errors\s*\(\s*\)|\breturn\b|\?\s*[;)\n.,]|[{}]|\"(?:[^\"\\]|\\.)*\"")
    for t in tok.finditer(rest):
        g = t.group(0)
        if g == "{": stack.append(stack[-1])
        elif g == "}":
            if len(stack) > 1: stack.pop()
        elif g.startswith('"'): continue
        elif "clear_suppressed" in g: stack[-1] = (True, stack[-1][1])
        elif "into_errors" in g: stack[-1] = (stack[-1][0], True)
        elif g == "return":
            d = rest[t.end():t.end() + 60].strip().split("\n")[0]
            exits.append((f"return {d[:40]}".replace('"', "'"),) + stack[-1])
        else:
            d = rest[max(0, t.start() - 50):t.start()].strip().split("\n")[-1]
            exits.append((f"{d[-40:]}?".replace('"', "'"),) + stack[-1])
    tail = rest.strip().split("\n")[-1].strip()
    exits.append((f"final value {tail[:40]}".replace('"', "'"),) + stack[0])
    if rest.count("into_errors") != 1:
        raise TranslateError("add_source: expected exactly one `ast.into_errors()`")
    # the suppressions are consulted in Warnings::add only
    return exits


def include_stack_balanced(impl):
    body = strip_comments(fn_body(impl, "c_items"))
    pushes = [m.start() for m in re.finditer(r"self\s*\.\s*include_stack\s*\.\s*push\s*\(", body)]
    pops = [m.start() for m in re.finditer(r"self\s*\.\s*include_stack\s*\.\s*pop\s*\(\s*\)", body)]
    if len(pushes) != 1:
        raise TranslateError("c_items: expected exactly one include_stack.push")
    if len(pops) != 1 or pops[0] < pushes[0]:
        return False
    between = re.sub(r'"(?:[^"\\]|\\.)*"', '""', body[pushes[0]:pops[0]])
    if re.search(r"\b(continue|break|return)\b|\?\s*[;)\n.,]", between):
        return False
    # push and pop in the same block
    depth = 0
    for ch in between:
        if ch == "{": depth += 1
        elif ch == "}": depth -= 1
        if depth < 0: return False
    return depth == 0


def include_restores_source_id(impl):
    """c_items, `include` arm: the report builder's current source id is saved before the nested
    add_source and restored right after it, on the same straight-line path as the include stack's
    push and pop (no way out in between), so that the diagnostics of the rest of the including
    source are attributed to it whether or not the included file had errors."""
    body = strip_comments(fn_body(impl, "c_items"))
    push = re.search(r"self\s*\.\s*include_stack\s*\.\s*push\s*\(", body)
    pop = re.search(r"self\s*\.\s*include_stack\s*\.\s*pop\s*\(\s*\)", body)
    if not push or not pop or pop.start() < push.start():
        return False
    save = [m.start() for m in re.finditer(r"let\s+source_id\s*=\s*self\s*\.\s*report_builder\s*\.\s*get_current_source_id\s*\(", body)]
    restore = [m.start() for m in re.finditer(r"self\s*\.\s*report_builder\s*\.\s*set_current_source_id\s*\(\s*source_id\s*\)", body)]
    nested = [m.start() for m in re.finditer(r"self\s*\.\s*add_source\s*\(", body)]
    if len(save) != 1 or len(restore) != 1 or len(nested) != 1:
        return False
    # add_source itself must not touch the saved id on some of its exits only
    adds = strip_comments(fn_body(impl, "add_source"))
    if "set_current_source_id" in adds:
        return False
    return save[0] < nested[0] < restore[0] and push.start() < nested[0] and restore[0] < pop.start() + 200 and \
        not re.search(r"\b(continue|break|return)\b|\?\s*[;)\n.,]", re.sub(r'"(?:[^"\\]|\\.)*"', '""', body[nested[0]:max(restore[0], pop.start())]))


def main():
    text = src("lib/src/compiler/mod.rs")
    fields = struct_fields(text, "Compiler")
    snap_fields = struct_fields(text, "Snapshot")
    impl = compiler_impl(text)
    methods = method_names(impl)

    # take_snapshot
    tk = strip_comments(fn_body(impl, "take_snapshot"))
    m = re.search(r"Snapshot\s*\{", tk)
    if not m: raise TranslateError("take_snapshot: no Snapshot literal")
    lit = tk[m.end():match_brace(tk, m.end() - 1)]
    snap_def = []
    for sf in snap_fields:
        fm = re.search(r"\b" + sf + r"\s*:\s*self\s*\.\s*([a-z_][a-z_0-9]*)\s*(\.\s*len\s*\(\s*\))?\s*(,|$)", lit)
        if not fm: raise TranslateError(f"take_snapshot: initialiser of {sf} not understood")
        if fm.group(1) not in fields: raise TranslateError(f"take_snapshot: {fm.group(1)} is not a Compiler field")
        snap_def.append((sf, "LenOf" if fm.group(2) else "ValOf", fm.group(1)))
    if len(re.findall(r"\b[a-z_][a-z_0-9]*\s*:", lit)) != len(snap_fields):
        raise TranslateError("take_snapshot: literal has unexpected fields")

    # restore_snapshot: every statement must be understood
    rs = strip_comments(fn_body(impl, "restore_snapshot"))
    stmts = [s.strip() for s in re.split(r";", rs) if s.strip()]
    restore = []
    for s in stmts:
        s1 = re.sub(r"\s+", "", s)
        mm = re.match(r"self\.([a-z_0-9]+)\.truncate\(snapshot\.([a-z_0-9]+)\)$", s1)
        if mm: restore.append(("Truncate", mm.group(1), mm.group(2))); continue
        mm = re.match(r"self\.([a-z_0-9]+)=snapshot\.([a-z_0-9]+)$", s1)
        if mm: restore.append(("Assign", mm.group(1), mm.group(2))); continue
        mm = re.match(r"self\.([a-z_0-9]+)\.retain\(\|_,pattern_id\|\*pattern_id<snapshot\.([a-z_0-9]+)\)$", s1)
        if mm: restore.append(("RetainValBelow", mm.group(1), mm.group(2))); continue
        mm = re.match(r"self\.([a-z_0-9]+)\.retain\(\|pattern_id,_\|\*pattern_id<snapshot\.([a-z_0-9]+)\)$", s1)
        if mm: restore.append(("RetainKeyBelow", mm.group(1), mm.group(2))); continue
        raise TranslateError(f"restore_snapshot: statement not understood: {s[:80]!r}")
    for k, f, sn in restore:
        if f not in fields: raise TranslateError(f"restore_snapshot: {f} is not a Compiler field")
        if sn not in snap_fields: raise TranslateError(f"restore_snapshot: {sn} is not a Snapshot field")

    # fallible region of c_rule
    cr = fn_body(impl, "c_rule")
    i = cr.find(SNAP_BEGIN)
    j = cr.find(SNAP_END_MARK)
    if i < 0 or j < 0 or j < i:
        raise TranslateError("c_rule: cannot delimit the fallible region (take_snapshot .. 'after every fallible function')")
    region = cr[i + len(SNAP_BEGIN):j]
    muts = set()
    scan_mutations(region, fields, "c_rule", muts)
    # transitive closure over self.<method>( calls
    seen, todo = set(), []
    def calls(code):
        code = strip_comments(code)
        return {c for c in re.findall(r"\b(?:self|Self)\s*(?:\.|::)\s*([a-z_][a-z_0-9]*)\s*(?:::<[^>]*>)?\s*\(", code) if c in methods}
    todo = sorted(calls(region) - {"take_snapshot", "restore_snapshot"})
    reached = []
    while todo:
        c = todo.pop(0)
        if c in seen: continue
        seen.add(c); reached.append(c)
        body = fn_body(impl, c)
        scan_mutations(body, fields, c, muts)
        for d in sorted(calls(body)):
            if d not in seen and d not in ("take_snapshot", "restore_snapshot"): todo.append(d)
    muts = sorted(muts)

    # ---- exits of the fallible region: every way c_rule can leave with an error
    # (`return ...` other than the final Ok, and the `?` operator) must be
    # preceded, on its path, by `self.restore_snapshot(snapshot)`.
    exits = fallible_exits(strip_comments(region))

    ctor = lambda f: "F_" + f
    L = []
    L.append("(* GENERATED by translate/gen_snapshot.py from lib/src/compiler/mod.rs -- do not edit. *)")
    L.append("From Coq Require Import List String.")
    L.append("Import ListNotations.")
    L.append("Local Open Scope string_scope.")
    L.append("")
    L.append("(* fields of `struct Compiler` *)")
    L.append("Inductive field : Set :=\n" + "\n".join(f"| {ctor(f)}" for f in fields) + ".")
    L.append("Definition all_fields : list field := [" + "; ".join(ctor(f) for f in fields) + "].")
    L.append("Definition field_name (f : field) : string :=\n  match f with\n" +
             "\n".join(f'  | {ctor(f)} => "{f}"' for f in fields) + "\n  end.")
    L.append("Scheme Equality for field.")
    L.append("Definition field_eqb (a b : field) : bool := field_beq a b.")
    L.append("")
    L.append("Inductive snap_src := LenOf (f : field) | ValOf (f : field).")
    L.append("(* take_snapshot(): Snapshot field name -> what it records *)")
    L.append("Definition snapshot_def : list (string * snap_src) :=\n  [" +
             ";\n   ".join(f'("{sf}", {k} {ctor(f)})' for sf, k, f in snap_def) + "].")
    L.append("")
    L.append("Inductive restore_act :=\n| Truncate (f : field) (snap : string)\n| Assign (f : field) (snap : string)\n"
             "| RetainKeyBelow (f : field) (snap : string)\n| RetainValBelow (f : field) (snap : string).")
    L.append("(* restore_snapshot(), statement by statement *)")
    L.append("Definition restore_def : list restore_act :=\n  [" +
             ";\n   ".join(f'{k} {ctor(f)} "{sn}"' for k, f, sn in restore) + "].")
    L.append("")
    L.append("Inductive mkind := Append | Insert | Incr | SetExisting | MutExisting | Intern | PassMut | AssignK | Shrink.")
    L.append(f"(* mutations of Compiler fields reachable from the fallible region of c_rule; methods followed: {', '.join(reached)} *)")
    L.append("Definition mutations : list (field * mkind) :=\n  [" +
             ";\n   ".join(f"({ctor(f)}, {k})" for f, k in muts) + "].")
    L.append("")
    L.append("(* every exit (return / ?) of the fallible region of c_rule, and whether")
    L.append("   `self.restore_snapshot(snapshot)` was executed on the way to it *)")
    L.append("Definition fallible_exits : list (string * bool) :=\n  [" +
             ";\n   ".join(f'("{d}", {str(r).lower()})' for d, r in exits) + "].")
    L.append("")
    L.append("(* add_source: every exit after the warning-suppression hook was created (return / ? / final value),")
    L.append("   and whether `self.warnings.clear_suppressed()` was executed on the way to it *)")
    ase = add_source_exits(impl)
    L.append("Definition add_source_exits : list (string * bool) :=\n  [" +
             ";\n   ".join(f'("{d}", {str(r).lower()})' for d, r, _ in ase) + "].")
    L.append("")
    L.append("(* same exits: were the parser's errors (`ast.into_errors()`) appended to `self.errors` before leaving? *)")
    L.append("Definition add_source_exits_record_parser_errors : list (string * bool) :=\n  [" +
             ";\n   ".join(f'("{d}", {str(r).lower()})' for d, _, r in ase) + "].")
    L.append("")
    L.append("(* c_items, `include` arm: between `self.include_stack.push(..)` and `self.include_stack.pop()` there is")
    L.append("   no way out of the arm (continue / break / return / ?), and these are the only push and pop *)")
    L.append(f"Definition include_stack_balanced : bool := {str(include_stack_balanced(impl)).lower()}.")
    L.append("")
    L.append("(* c_items, `include` arm: the current source id of the report builder is saved before the nested")
    L.append("   add_source and restored after it on every path (and add_source does not set it itself) *)")
    L.append(f"Definition include_restores_source_id : bool := {str(include_restores_source_id(impl)).lower()}.")
    L.append("")
    write_if_changed("SnapshotGen.v", "\n".join(L) + "\n")


if __name__ == "__main__":
    main()
