#!/usr/bin/env python3
"""Gen/TokenizerGen.v (C10) from parser/src/tokenizer/mod.rs: the facts about the wrapper
around the logos lexers that Parser/Tokenizer.v is parametric in.

* next_token: in hex pattern mode a lexer error goes back to NORMAL mode, in hex jump mode to
  HEX PATTERN mode, and the new lexer starts at `lexer.span().start` (or `.end`);
* enter_hex_pattern_mode / enter_hex_jump_mode: no-op in the target mode, otherwise the new lexer
  starts at `lexer.span().end` (or `.start`);
* unexpected_token: the span of INVALID_UTF8 (`Span::from(lexer.span())` or `start..start+1`),
  the truncation at whitespace and the `lexer.bump(..saturating_sub..)` of UNKNOWN;
* which punctuation tokens each hex mode does NOT have (they end the mode): `}` / `]`.

Any other shape raises TranslateError.
"""
import re
from tlib import *

TK = "parser/src/tokenizer/mod.rs"


def norm(s):
    return re.sub(r"\s+", " ", strip_comments(s)).strip()


def start_or_end(text, what):
    vals = set(re.findall(r"lexer\.span\(\)\.(start|end)", text))
    if len(vals) != 1:
        raise TranslateError(f"{what}: expected one of lexer.span().start / .end, found {sorted(vals)}")
    return vals.pop()


def enum_tokens(text, name):
    body, _, _ = block_after(text, r"\benum\s+" + name + r"\b[^{]*\{", f"enum {name}")
    return set(re.findall(r'#\[token\("((?:[^"\\]|\\.)*)"\)\]', body))


def main():
    t = src(TK)
    nt = norm(fn_body(t, "next_token"))
    # normal mode: Ok -> converted token with the offset span; Err -> unexpected_token
    if not re.search(r"Mode::Normal\(lexer\) => match lexer\.next\(\)\? \{ Ok\(token\) => \{ return Some\(convert_normal_token\( token, Span::from\(lexer\.span\(\)\) \.offset\(self\.lexer_starting_pos as isize\), \)\); \} Err\(\(\)\) => return Some\(self\.unexpected_token\(\)\), \}", nt):
        raise TranslateError("next_token: Normal arm changed")
    arms = {}
    for mode, conv, target in (("HexPattern", "convert_hex_pattern_token", "Normal"), ("HexJump", "convert_hex_jump_token", "HexPattern")):
        m = re.search(r"Mode::" + mode + r"\(lexer\) => match lexer\.next\(\)\? \{ Ok\(token\) => \{ return Some\(" + conv +
                      r"\( token, Span::from\(lexer\.span\(\)\) \.offset\(self\.lexer_starting_pos as isize\), \)\); \} Err\(\(\)\) => \{(.*?)\} \},", nt)
        if not m:
            raise TranslateError(f"next_token: {mode} arm changed")
        e = m.group(1)
        em = re.fullmatch(r" self\.lexer_starting_pos \+= match &self\.mode \{ Mode::" + mode + r"\(lexer\) => (lexer\.span\(\)\.(?:start|end)), _ => unreachable!\(\), \}; "
                          r"self\.mode = Mode::(\w+)\(Logos::lexer\( &self\.source\[self\.lexer_starting_pos\.\.\], \)\); ", e)
        if not em:
            raise TranslateError(f"next_token: error branch of {mode} mode not understood: {e[:120]}")
        if em.group(2) != target:
            raise TranslateError(f"next_token: an error in {mode} mode now switches to {em.group(2)} (the model goes to {target})")
        arms[mode] = start_or_end(em.group(1), f"next_token/{mode}")
    if len(set(arms.values())) != 1:
        raise TranslateError("next_token: the two hex modes restart at different offsets")
    err_at_start = arms["HexPattern"] == "start"

    enters = {}
    for fn, target, others in (("enter_hex_pattern_mode", "HexPattern", ("Normal", "HexJump")), ("enter_hex_jump_mode", "HexJump", ("Normal", "HexPattern"))):
        b = norm(fn_body(t, fn))
        b = re.sub(r"#\[cfg\(yara_x_verif\)\] verif::record\(\d+\); ", "", b)
        m = re.fullmatch(r"self\.lexer_starting_pos \+= match &self\.mode \{ Mode::" + target + r"\(_\) => return, (.*?) \}; "
                         r"self\.mode = Mode::" + target + r"\(Logos::lexer\( &self\.source\[self\.lexer_starting_pos\.\.\], \)\);", b)
        if not m:
            raise TranslateError(f"{fn}: shape changed: {b[:160]}")
        seen = re.findall(r"Mode::(\w+)\(lexer\) => lexer\.span\(\)\.(start|end),", m.group(1))
        if sorted(x for x, _ in seen) != sorted(others) or re.sub(r"Mode::\w+\(lexer\) => lexer\.span\(\)\.(?:start|end),|\s", "", m.group(1)):
            raise TranslateError(f"{fn}: arms changed: {m.group(1)[:120]}")
        enters[fn] = start_or_end(m.group(1), fn)
    if len(set(enters.values())) != 1:
        raise TranslateError("enter_hex_*_mode restart at different offsets")
    enter_at_end = enters["enter_hex_pattern_mode"] == "end"

    u = norm(fn_body(t, "unexpected_token"))
    for need, what in ((r"let start = lexer\.span\(\)\.start; let end = lexer\.source\(\)\.len\(\); let unexpected = lexer\.source\(\)\.get\(start\.\.end\)\.unwrap\(\);", "the slice from the error start to the end"),
                       (r"let chunk = unexpected\.utf8_chunks\(\)\.next\(\)\.unwrap\(\);", "the first UTF-8 chunk"),
                       (r"let unexpected = chunk\.valid\(\);", "the valid prefix"),
                       (r"let unexpected = unexpected\.split\(char::is_whitespace\)\.next\(\)\.unwrap\(\);", "truncation at whitespace"),
                       (r"Token::UNKNOWN\( Span::from\(lexer\.span\(\)\)\.offset\(self\.lexer_starting_pos as isize\), \)$", "UNKNOWN = the (bumped) lexer span")):
        if not re.search(need, u):
            raise TranslateError(f"unexpected_token: {what}: shape changed")
    im = re.search(r"if chunk\.valid\(\)\.is_empty\(\) \{ return Token::INVALID_UTF8\( (.*?) \); \}", u)
    if not im:
        raise TranslateError("unexpected_token: INVALID_UTF8 branch not found")
    sp = im.group(1).rstrip(", ")
    if sp == "Span::from(lexer.span()) .offset(self.lexer_starting_pos as isize)":
        inv_covers = True
    elif sp == "Span(start as u32..(start + 1) as u32) .offset(self.lexer_starting_pos as isize)":
        inv_covers = False
    else:
        raise TranslateError(f"unexpected_token: INVALID_UTF8 span expression not understood: {sp}")
    # optional: an empty prefix is replaced by the first character of the valid chunk
    cm = re.search(r"let unexpected = if unexpected\.is_empty\(\) \{ let first = chunk\.valid\(\)\.chars\(\)\.next\(\)\.map_or\(0, char::len_utf8\); &chunk\.valid\(\)\[\.\.first\] \} else \{ unexpected \};", u)
    if "unexpected.is_empty()" in u and not cm:
        raise TranslateError("unexpected_token: handling of an empty prefix not understood")
    covers_ws = bool(cm)
    bm = re.search(r"lexer\.bump\((.*?)\);", u)
    if bm and bm.group(1) == "unexpected.len().saturating_sub(lexer.span().len())":
        bumps = True
    elif not bm:
        bumps = False
    else:
        raise TranslateError(f"unexpected_token: bump expression not understood: {bm.group(1)}")

    hp, hj, nm = enum_tokens(t, "HexPatternToken"), enum_tokens(t, "HexJumpToken"), enum_tokens(t, "NormalToken")
    if "}" in hp or "{" in hp: raise TranslateError("HexPatternToken has a brace token: hex pattern mode is never left at `}`")
    if "]" in hj or "[" in hj: raise TranslateError("HexJumpToken has a bracket token: hex jump mode is never left at `]`")
    if "[" not in hp or "]" not in hp or "}" not in nm or "{" not in nm:
        raise TranslateError("bracket/brace tokens moved between the lexers")

    b = lambda x: "true" if x else "false"
    text = f"""(* GENERATED by translate/gen_tokenizer.py from parser/src/tokenizer/mod.rs -- do not edit;
   regenerated on every check. *)
From Coq Require Import NArith Bool.
From YV Require Import Parser.Tokenizer Gen.Grammar.

(* next_token: after a lexer error in hex pattern mode (-> normal) / hex jump mode (-> hex
   pattern) the new lexer starts at lexer.span().{arms['HexPattern']};
   enter_hex_pattern_mode / enter_hex_jump_mode: the new lexer starts at lexer.span().{enters['enter_hex_pattern_mode']};
   unexpected_token: INVALID_UTF8 = {sp.split(' .offset')[0]};
   UNKNOWN = valid prefix up to the first whitespace, lexer.bump({'saturating_sub' if bumps else 'none'}). *)
Definition yara_tcfg : tcfg :=
  mkTcfg {b(err_at_start)} {b(enter_at_end)} {b(inv_covers)} {b(bumps)} {b(covers_ws)} T.INVALID_UTF8 T.UNKNOWN.
"""
    write_if_changed("TokenizerGen.v", text)


if __name__ == "__main__":
    main()
