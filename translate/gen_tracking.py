#!/usr/bin/env python3
"""Gen/TrackingGen.v from lib/src/scanner/mod.rs and lib/src/wasm/builder.rs.

* the `len_non_private:` / `len_private:` initialisers of MatchingRules::new
  and NonMatchingRules::new, as Gallina expressions over the model context;
* whether finish_rule calls rule_no_match for non-global rules without a
  feature guard.
"""
import re
from tlib import *

TERMS = [
    (r"ctx\.matching_rules\.len\(\)", "Z.of_nat (length (matching c))"),
    (r"ctx\.num_matching_private_rules", "n_mp c"),
    (r"ctx\.compiled_rules\.num_rules\(\)", "Z.of_nat (length rules)"),
    (r"num_rules", "Z.of_nat (length rules)"),
    (r"ctx\.compiled_rules\.num_private_rules\(\)", "num_private_rules rules"),
    # number of private rules among the zero bits of the rule bitmap
    (r"matching_rules_bitmap\.iter_zeros\(\)\.filter\(\|id\|ctx\.compiled_rules\.get\(RuleId::from\(\*id\)\)\.is_private\)\.count\(\)",
     "countp (is_priv rules) (zeros_from 0 (firstn (length rules) (bitmap c)))"),
]


def expr_to_gallina(e, lets):
    e = re.sub(r"\s+", "", e)
    out, i = [], 0
    while i < len(e):
        if e[i] in "+-":
            out.append(" " + e[i] + " "); i += 1; continue
        if e[i] in "()":
            out.append(e[i]); i += 1; continue
        for pat, g in TERMS:
            m = re.compile(pat).match(e, i)
            if m and (m.end() == len(e) or e[m.end()] in "+-()"):
                out.append("(" + g + ")"); i = m.end(); break
        else:
            m = re.compile(r"[A-Za-z_][A-Za-z_0-9]*").match(e, i)
            if m and m.group(0) in lets and (m.end() == len(e) or e[m.end()] in "+-()"):
                out.append("(" + lets[m.group(0)] + ")"); i = m.end()
            else:
                raise TranslateError(f"iterator length formula: unknown term at {e[i:i+60]!r}")
    return "".join(out)


def ctor_formulas(src_text, ty):
    impl = impl_block(src_text, r"impl<'a,\s*'r>\s+" + ty + r"<'a,\s*'r>\s*\{", f"impl {ty}")
    body = strip_comments(fn_body(impl, "new", ty))
    lets = {}
    # `let x = <arith>;` bindings that the formulas may use
    for m in re.finditer(r"let\s+([a-z_][a-z_0-9]*)\s*=\s*([^;{}]*?);", body):
        name, rhs = m.group(1), m.group(2)
        try:
            lets[name] = expr_to_gallina(rhs, lets)
        except TranslateError:
            pass  # not an arithmetic binding we understand; only an error if used
    m = re.search(r"Self\s*\{", body)
    if not m:
        raise TranslateError(f"{ty}::new: no `Self {{` literal")
    j = match_brace(body, m.end() - 1)
    lit = body[m.end():j]
    res = {}
    for field in ("len_non_private", "len_private"):
        fm = re.search(r"\b" + field + r"\s*:\s*([^,]*?)\s*(,|$)", lit, re.S)
        if not fm:
            # shorthand `len_private,` initialised from a let
            if re.search(r"\b" + field + r"\s*(,|$)", lit) and field in lets:
                res[field] = lets[field]; continue
            raise TranslateError(f"{ty}::new: field {field} not found")
        res[field] = expr_to_gallina(fm.group(1), lets)
    return res


def no_match_always(builder):
    body = strip_comments(fn_body(builder, "finish_rule"))
    m = re.search(r"if\s+self\.global_rule\s*\{", body)
    if not m:
        raise TranslateError("finish_rule: `if self.global_rule {` not found")
    j = match_brace(body, m.end() - 1)
    rest = body[j + 1:]
    em = re.match(r"\s*else\s*\{", rest)
    if not em:
        # no else branch at all: rule_no_match is never called for non-global rules
        return False
    k = match_brace(rest, em.end() - 1)
    els = rest[em.end():k]
    if "rule_no_match" not in els:
        return False
    # called; is it behind the rules-profiling cfg?
    if re.search(r'#\[cfg\(feature\s*=\s*"rules-profiling"\)\]\s*then_', els):
        return False
    return True


def matches_iter_facts(models):
    """models.rs: does Matches::next need the context (`self.ctx?`), does len() read the inner
    iterator, does Pattern::matches derive the inner iterator from the context?"""
    impl_it = impl_block(models, r"impl<'a,\s*'r>\s+Iterator\s+for\s+Matches<'a,\s*'r>\s*\{", "impl Iterator for Matches")
    nxt = re.sub(r"\s+", "", strip_comments(fn_body(impl_it, "next", "Matches::next")))
    if "self.iterator.as_mut()?" not in nxt or "iter.next()?" not in nxt:
        raise TranslateError("Matches::next: expected `self.iterator.as_mut()?` and `iter.next()?`")
    needs_ctx = "self.ctx?" in nxt
    if needs_ctx and nxt.index("self.ctx?") > nxt.index("iter.next()?"):
        raise TranslateError("Matches::next: `iter.next()?` is now evaluated before `self.ctx?` (the model does not advance on a missing context)")
    impl_len = impl_block(models, r"impl\s+ExactSizeIterator\s+for\s+Matches<'_,\s*'_>\s*\{", "impl ExactSizeIterator for Matches")
    ln = re.sub(r"\s+", "", strip_comments(fn_body(impl_len, "len", "Matches::len")))
    if ln != "self.iterator.as_ref().map_or(0,|it|it.len())":
        raise TranslateError(f"Matches::len: unexpected body {ln!r}")
    m = re.search(r"pub\s+fn\s+matches\s*\(\s*&self\s*\)\s*->\s*Matches<'a,\s*'r>\s*\{", models)
    if not m:
        raise TranslateError("Pattern::matches not found")
    body = re.sub(r"\s+", "", strip_comments(models[m.end():match_brace(models, m.end() - 1)]))
    if not body.startswith("Matches{ctx:self.ctx,iterator:"):
        raise TranslateError("Pattern::matches: expected `Matches { ctx: self.ctx, iterator: ... }`")
    from_ctx = body.startswith("Matches{ctx:self.ctx,iterator:self.ctx.and_then(|ctx|{ctx.tracker.pattern_matches.get(self.pattern_id).map(|matches|matches.iter())})")
    return needs_ctx, from_ctx


def main():
    models = src("lib/src/models.rs")
    needs_ctx, from_ctx = matches_iter_facts(models)
    scanner = src("lib/src/scanner/mod.rs")
    builder = src("lib/src/wasm/builder.rs")
    m = ctor_formulas(scanner, "MatchingRules")
    n = ctor_formulas(scanner, "NonMatchingRules")
    nma = no_match_always(builder)
    text = f"""(* GENERATED by translate/gen_tracking.py from lib/src/scanner/mod.rs and
   lib/src/wasm/builder.rs -- do not edit; regenerated on every check. *)
From Coq Require Import List ZArith.
From YV Require Import Scanner.PrivIter Scanner.Tracking.
Local Open Scope Z_scope.

(* finish_rule: is rule_no_match called for non-global rules (default features)? *)
Definition no_match_always : bool := {str(nma).lower()}.

(* MatchingRules::new *)
Definition matching_len_np (rules : list rule) (c : ctx) : Z := {m['len_non_private']}.
Definition matching_len_p  (rules : list rule) (c : ctx) : Z := {m['len_private']}.

(* NonMatchingRules::new *)
Definition nonmatching_len_np (rules : list rule) (c : ctx) : Z := {n['len_non_private']}.
Definition nonmatching_len_p  (rules : list rule) (c : ctx) : Z := {n['len_private']}.

(* models.rs Matches::next reads `self.ctx?` before advancing; Pattern::matches builds the
   inner iterator with `self.ctx.and_then(..pattern_matches.get(id).map(iter))` *)
Definition matches_next_needs_ctx : bool := {str(needs_ctx).lower()}.
Definition matches_iter_from_ctx : bool := {str(from_ctx).lower()}.
"""
    write_if_changed("TrackingGen.v", text)


if __name__ == "__main__":
    main()
