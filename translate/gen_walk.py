#!/usr/bin/env python3
"""Gen/WalkGen.v from cli/src/walk.rs, cli/src/commands/scan.rs, cli/src/main.rs.

Constants the walk model (Cli/Walk.v) is instantiated with, and the
structural facts of `ParWalker::walk` the model relies on.  Every fact is a
syntactic shape; when a shape is gone the translator raises TranslateError
(the model would no longer describe the code).

  paths_channel_capacity      `crossbeam::channel::bounded::<PathBuf>(N)`
  default_threads_fallback    `available_parallelism().map(usize::from).unwrap_or(N)`
  main_keeps_paths_receiver   workers get `paths_recv.clone()`; is the original
                              receiver still alive while main joins the threads
                              (no `drop(paths_recv)` before the join)?
checked shapes (TranslateError when absent):
  * the message channel is `unbounded::<Message>()`;
  * workers run `for path in paths_recv { .. }` (loop until closed and empty);
  * a worker whose error callback fails sends `Message::Abort` and `break`s;
  * exactly one `paths_send`, no clone, used by `self.walker.walk` inside a
    `s.spawn(move |_| ..)` (dropped when the walker closure returns);
  * the walker treats `SendError<PathBuf>` as fatal for the walk;
  * `output_messages`: `Ok(Message::Abort) => break`, `Disconnected => break`;
  * main joins every thread after `output_messages` returned;
  * scan.rs: the error callback returns Err only for `ScanError::Timeout`;
    result lines are sent with `.send(Message::Info(..)).unwrap()`;
    a scan error is propagated (`scan_results?`) before `on_file_scanned`;
  * main.rs: the panic hook calls `process::exit`;
  * scan.rs: every `--define` is applied to EACH worker's scanner: the per-thread
    initialisation closure (first closure given to `w.walk`) creates
    `Scanner::new(rules_ref)` and loops `for (ident, value) in vars { scanner.set_global(..) }`
    over `external_vars` (what makes --compiled-rules honour scan-time values), and
    likewise applies --max-matches-per-pattern / --fast-scan / --no-mmap there.
"""
import re
from tlib import *


def need(cond, what):
    if not cond:
        raise TranslateError("walk model: shape not found: " + what)


def main():
    walk_full = src("cli/src/walk.rs")
    # the sequential `Walker` above ParWalker contains a raw string literal (r#".\"#) that
    # tlib.strip_comments does not understand; the model only concerns what follows
    k = walk_full.find("pub(crate) struct ParWalker")
    need(k >= 0, "pub(crate) struct ParWalker")
    need('r#"' not in walk_full[k:], "no raw string literal after ParWalker")
    walk = strip_comments(walk_full[k:])
    scan = strip_comments(src("cli/src/commands/scan.rs"))
    mainrs = strip_comments(src("cli/src/main.rs"))

    impl = impl_block(walk, r"impl<'a>\s+ParWalker<'a>\s*\{", "impl ParWalker")
    body = fn_body(impl, "walk", "ParWalker::walk")

    m = re.search(r"let\s*\(\s*paths_send\s*,\s*paths_recv\s*\)\s*=\s*crossbeam::channel::bounded::<PathBuf>\(\s*(\d+)\s*\)", body)
    need(m, "let (paths_send, paths_recv) = crossbeam::channel::bounded::<PathBuf>(N)")
    cap = int(m.group(1))
    need(cap >= 1, "paths channel capacity >= 1 (a zero-capacity channel is a rendezvous channel, not modelled)")

    need(re.search(r"let\s*\(\s*msg_send\s*,\s*msg_recv\s*\)\s*=\s*crossbeam::channel::unbounded::<Message>\(\)", body),
         "let (msg_send, msg_recv) = crossbeam::channel::unbounded::<Message>()")

    m = re.search(r"thread::available_parallelism\(\)\s*\.map\(usize::from\)\s*\.unwrap_or\(\s*(\d+)\s*\)", body)
    need(m, "thread::available_parallelism().map(usize::from).unwrap_or(N)")
    fallback = int(m.group(1))

    # worker loop
    m = re.search(r"for\s+_\s+in\s+0\.\.num_threads\s*\{", body)
    need(m, "for _ in 0..num_threads {")
    j = match_brace(body, m.end() - 1)
    spawn_loop = body[m.end():j]
    after_spawn_loop = body[j + 1:]
    need(re.search(r"let\s+paths_recv\s*=\s*paths_recv\.clone\(\)\s*;", spawn_loop), "workers take paths_recv.clone()")
    need(re.search(r"let\s+msg_send\s*=\s*msg_send\.clone\(\)\s*;", spawn_loop), "workers take msg_send.clone()")
    need(re.search(r"threads\.push\(\s*s\.spawn\(\s*move\s*\|_\|", spawn_loop), "threads.push(s.spawn(move |_| ..)) for workers")
    fm = re.search(r"for\s+path\s+in\s+paths_recv\s*\{", spawn_loop)
    need(fm, "for path in paths_recv {")
    fj = match_brace(spawn_loop, fm.end() - 1)
    wloop = spawn_loop[fm.end():fj]
    need(re.search(r"let\s+res\s*=\s*action\(", wloop), "let res = action(..) in the worker loop")
    need(re.search(r"if\s+let\s+Err\(err\)\s*=\s*res\s*&&\s*error\(err,\s*&msg_send\)\.is_err\(\)\s*\{\s*let\s+_\s*=\s*msg_send\.send\(Message::Abort\)\s*;\s*break\s*;\s*\}", wloop),
         "if let Err(err) = res && error(err, &msg_send).is_err() { let _ = msg_send.send(Message::Abort); break; }")
    need(re.search(r"finalize\(&per_thread_obj,\s*&msg_send\)", spawn_loop[fj:]), "finalize(..) after the worker loop")

    # walker thread
    need(len(re.findall(r"\bpaths_send\b", body)) == 2 and "paths_send.clone" not in body,
         "a single paths_send, used once (no clone)")
    wm = re.search(r"threads\.push\(\s*s\.spawn\(\s*move\s*\|_\|\s*\{", after_spawn_loop)
    need(wm, "threads.push(s.spawn(move |_| { .. })) for the walker")
    wj = match_brace(after_spawn_loop, wm.end() - 1)
    walker = after_spawn_loop[wm.end():wj]
    after_walker = after_spawn_loop[wj + 1:]
    need(re.search(r"self\.walker\.walk\(\s*\|file_path\|\s*Ok\(paths_send\.send\(file_path\.to_path_buf\(\)\)\?\)", walker),
         "self.walker.walk(|file_path| Ok(paths_send.send(file_path.to_path_buf())?), ..)")
    need(re.search(r"if\s+err\.is::<SendError<PathBuf>>\(\)\s*\{\s*return\s+Err\(err\)\s*;\s*\}", walker),
         "walker: SendError<PathBuf> aborts the walk")
    need(re.search(r"if\s+let\s+Err\(err\)\s*=\s*error\(err,\s*&msg_send\)\s*\{\s*let\s+_\s*=\s*msg_send\.send\(Message::Abort\)\s*;\s*return\s+Err\(err\)\s*;\s*\}\s*Ok\(\(\)\)", walker),
         "walker: other errors go to the error callback; the walk continues when it returns Ok")

    # printer, then join
    om = re.search(r"output_messages\(", after_walker)
    need(om, "output_messages(..) on the main thread")
    jm = re.search(r"threads\.into_iter\(\)\.for_each\(\|thread\|\s*thread\.join\(\)\.unwrap\(\)\)", after_walker)
    need(jm and jm.start() > om.start(), "threads joined after output_messages returned")
    before_join = body[:body.index(after_walker) + jm.start()]
    keeps_rx = re.search(r"drop\(\s*paths_recv\s*\)", before_join) is None

    out = fn_body(walk, "output_messages")
    need(re.search(r"Ok\(Message::Abort\)\s*=>\s*\{\s*break\s*;\s*\}", out), "output_messages: Ok(Message::Abort) => break")
    need(re.search(r"Err\(RecvTimeoutError::Disconnected\)\s*=>\s*\{\s*break\s*;\s*\}", out), "output_messages: Disconnected => break")
    need(re.search(r"Err\(RecvTimeoutError::Timeout\)\s*=>\s*\{\s*\}", out), "output_messages: Timeout => keep waiting")
    need(re.search(r"Ok\(Message::Info\(s\)\)\s*=>", out) and re.search(r"Ok\(Message::Error\(s\)\)\s*=>", out),
         "output_messages prints Info and Error")

    # scan.rs: error callback, Info sends, error propagation before output
    ex = fn_body(scan, "exec_scan")
    em = re.search(r"\|err,\s*output\|\s*\{", ex)
    need(em, "scan.rs error callback |err, output| {")
    ej = match_brace(ex, em.end() - 1)
    ecb = ex[em.end():ej]
    need(re.search(r"let\s+_\s*=\s*output\.send\(Message::Error\(msg\)\)\s*;", ecb), "error callback sends Message::Error ignoring failure")
    rets = re.findall(r"return\s+Err\(", ecb)
    need(len(rets) == 1 and re.search(r"matches!\(scan_err,\s*ScanError::Timeout\)\s*\{\s*return\s+Err\(scan_err\.into\(\)\)\s*;", ecb)
         and re.search(r"Ok\(\(\)\)\s*$", ecb.strip()),
         "error callback returns Err only for ScanError::Timeout")
    am = re.search(r"\|state,\s*output,\s*file_path,\s*scanner\|\s*\{", ex)
    need(am, "scan.rs action |state, output, file_path, scanner| {")
    aj = match_brace(ex, am.end() - 1)
    act = ex[am.end():aj]
    p1 = act.find("let scan_results = scan_results?;")
    p2 = act.find("output_handler.on_file_scanned(")
    need(0 <= p1 < p2, "action: `let scan_results = scan_results?;` before on_file_scanned")
    info_sends = re.findall(r"output\s*\.send\(Message::Info\(", scan)
    info_unwraps = re.findall(r"output\s*\.send\(Message::Info\([^;]*?\)\)\s*\.unwrap\(\)\s*;", scan, re.S)
    need(len(info_sends) >= 4 and len(info_sends) == len(info_unwraps), "every Info line is sent with .unwrap()")

    # per-worker scanner initialisation
    need(re.search(r"let\s+external_vars\s*=\s*get_external_vars\(args\)\s*;", ex), "let external_vars = get_external_vars(args);")
    im = re.search(r"w\.walk\(\s*state\s*,\s*\|_,\s*_\|\s*\{", ex)
    need(im, "w.walk(state, |_, _| { .. } : the per-thread initialisation closure")
    ij = match_brace(ex, im.end() - 1)
    initc = ex[im.end():ij]
    need(re.search(r"let\s+mut\s+scanner\s*=\s*Scanner::new\(rules_ref\)\s*;", initc), "init closure: let mut scanner = Scanner::new(rules_ref);")
    need(re.search(r"if\s+let\s+Some\(ref\s+vars\)\s*=\s*external_vars\s*\{\s*for\s*\(ident,\s*value\)\s*in\s+vars\s*\{[^}]*scanner\s*\.set_global\(ident\.as_str\(\),\s*value\)", initc, re.S),
         "init closure: for (ident, value) in vars { scanner.set_global(ident.as_str(), value) } over external_vars (every --define reaches each worker's scanner)")
    need(re.search(r"scanner\.max_matches_per_pattern\(", initc), "init closure applies --max-matches-per-pattern")
    need(re.search(r"scanner\.fast_scan\(true\)", initc), "init closure applies --fast-scan")
    need(re.search(r"scanner\s*$", initc.strip()), "init closure returns the scanner")

    need(re.search(r"panic::set_hook\(Box::new\(move\s*\|panic_info\|\s*\{[^}]*process::exit\(EXIT_ERROR\)\s*;\s*\}\)\)", mainrs, re.S),
         "main.rs: panic hook exits the process")

    text = f"""(* GENERATED by translate/gen_walk.py from cli/src/walk.rs, cli/src/commands/scan.rs and
   cli/src/main.rs -- do not edit; regenerated on every check. *)

(* crossbeam::channel::bounded::<PathBuf>(N) *)
Definition paths_channel_capacity : nat := {cap}.

(* number of worker threads when --threads is absent and available_parallelism() fails *)
Definition default_threads_fallback : nat := {fallback}.

(* the scope closure keeps the original `paths_recv` (workers own clones) until
   every thread has been joined: no `drop(paths_recv)` precedes the join *)
Definition main_keeps_paths_receiver : bool := {str(keeps_rx).lower()}.

(* shapes checked by the translator (it fails when one is gone): unbounded
   message channel; workers loop `for path in paths_recv`; Abort + break when the
   error callback fails; one un-cloned paths_send owned by the walker closure;
   SendError aborts the walk; printer stops on Abort / Disconnected; join after the
   printer; scan.rs error callback fails only for ScanError::Timeout; scan errors are
   propagated before any output; Info lines sent with .unwrap(); panic hook exits; per-worker
   scanner initialisation applies the --define values and scan options. *)
Definition checked_shapes : nat := 22.

(* scan.rs: the per-thread initialisation closure applies every --define (set_global loop over
   external_vars), --max-matches-per-pattern, --fast-scan and --no-mmap to the worker's own scanner *)
Definition defines_applied_per_worker : bool := true.
"""
    write_if_changed("WalkGen.v", text)


if __name__ == "__main__":
    main()
