"""Derive the serde/bincode wire shape of Rust types from their definitions (used by gen_codec.py).

A deliberately small reader of Rust item syntax: `struct` (named fields, tuple, unit), `enum`
(unit / tuple / struct variants), `bitflags!` structs, generic parameters, and type expressions
made of paths with generic arguments, tuples, arrays and references.  Everything it does not
understand - an attribute, a serde option, a type constructor, an ambiguous or missing
definition - raises TranslateError: the shape is never guessed.

Shapes are plain dicts (JSON-able):
  {"k": "u8"|"bool"|"f64"|"bytes"|"str"}            {"k": "uint"|"sint", "w": 16|32|64}
  {"k": "opt"|"seq", "t": S}   {"k": "map", "key": S, "val": S}
  {"k": "tuple"|"enum", "ts": [S..]}                {"k": "named", "n": "TypeId"}
"""
import os, re, hashlib
from tlib import *

PRIMS = {"u8": {"k": "u8"}, "i8": None, "bool": {"k": "bool"}, "f64": {"k": "f64"}, "f32": None,
         "u16": {"k": "uint", "w": 16}, "u32": {"k": "uint", "w": 32}, "u64": {"k": "uint", "w": 64}, "usize": {"k": "uint", "w": 64},
         "i16": {"k": "sint", "w": 16}, "i32": {"k": "sint", "w": 32}, "i64": {"k": "sint", "w": 64}, "isize": {"k": "sint", "w": 64},
         "String": {"k": "str"}, "str": {"k": "str"}, "NonZeroU32": {"k": "uint", "w": 32}, "NonZeroU64": {"k": "uint", "w": 64},
         "NonZeroU16": {"k": "uint", "w": 16},
         # bstr: Serialize for BString/BStr = serialize_bytes
         "BString": {"k": "bytes"}, "BStr": {"k": "bytes"}}
UNIT = {"k": "tuple", "ts": []}
# wire-transparent wrappers (serde "rc" feature / std impls)
TRANSPARENT = {"Rc", "Arc", "Box", "Cow", "Cell", "RefCell"}
SEQS = {"Vec", "VecDeque", "SmallVec", "BTreeSet", "HashSet", "FxHashSet", "IndexSet"}
MAPS = {"HashMap", "FxHashMap", "BTreeMap", "IndexMap"}
# serde attributes without any effect on a non-self-describing format that writes no names
NEUTRAL_CONTAINER = {"rename", "rename_all", "rename_all_fields", "bound", "crate", "deny_unknown_fields", "expecting"}
NEUTRAL_FIELD = {"rename", "alias", "bound", "borrow"}
NEUTRAL_VARIANT = {"rename", "alias", "rename_all", "bound", "borrow"}


def norm_digest(text):
    return hashlib.sha256(re.sub(r"\s+", "", strip_comments(text)).encode()).hexdigest()[:16]


# ------------------------------------------------------------------ type expressions
def split_top(s, sep=","):
    out, depth, start = [], 0, 0
    for i, ch in enumerate(s):
        if ch in "([{<": depth += 1
        elif ch in ")]}>":
            if ch == ">" and i > 0 and s[i - 1] in "-=": continue
            depth -= 1
        elif ch == sep and depth == 0:
            out.append(s[start:i]); start = i + 1
    out.append(s[start:])
    return [x.strip() for x in out if x.strip()]


def parse_type(s):
    """-> ('path', name, [args]) | ('tuple', [..]) | ('array', T, n)"""
    s = s.strip()
    if s.startswith("&"):
        s = re.sub(r"^&\s*('[a-z_]+\s*)?(mut\s+)?", "", s)
        return parse_type(s)
    if s.startswith("("):
        j = match_brace(s, 0, "(", ")")
        if j != len(s) - 1: raise TranslateError(f"type expression not understood: {s!r}")
        return ("tuple", [parse_type(x) for x in split_top(s[1:j])])
    if s.startswith("["):
        j = match_brace(s, 0, "[", "]")
        inner = split_top(s[1:j], ";")
        if j != len(s) - 1 or len(inner) not in (1, 2): raise TranslateError(f"type expression not understood: {s!r}")
        return ("array", parse_type(inner[0]), inner[1] if len(inner) == 2 else None)
    m = re.match(r"(?:dyn\s+)?([A-Za-z_][A-Za-z_0-9]*(?:::[A-Za-z_][A-Za-z_0-9]*)*)\s*(<.*>)?$", s, re.S)
    if not m: raise TranslateError(f"type expression not understood: {s!r}")
    args = []
    if m.group(2):
        for a in split_top(m.group(2)[1:-1]):
            if a.startswith("'"): continue            # lifetime
            args.append(parse_type(a))
    return ("path", m.group(1).split("::")[-1], args)


def type_text(t):
    if t[0] == "path": return t[1] + ("<" + ",".join(type_text(a) for a in t[2]) + ">" if t[2] else "")
    if t[0] == "tuple": return "(" + ",".join(type_text(a) for a in t[1]) + ")"
    return "[" + type_text(t[1]) + "]"


def subst(t, env):
    if t[0] == "path":
        if not t[2] and t[1] in env: return env[t[1]]
        return ("path", t[1], [subst(a, env) for a in t[2]])
    if t[0] == "tuple": return ("tuple", [subst(a, env) for a in t[1]])
    return ("array", subst(t[1], env), t[2])


# ------------------------------------------------------------------ attributes
def take_attrs(text):
    """leading #[...] attributes of an item/field/variant -> ([attr strings without spaces], rest)"""
    attrs = []
    text = text.strip()
    while text.startswith("#"):
        k = text.index("[")
        e = match_brace(text, k, "[", "]")
        attrs.append(re.sub(r"\s+", "", text[k + 1:e])); text = text[e + 1:].strip()
    return attrs, text


def serde_items(attrs, where):
    """[(key, value)] of all #[serde(..)] attributes; any other attribute except doc/derive-free ones is an error"""
    items = []
    for a in attrs:
        if a.startswith("doc") or a.startswith("allow(") or a == "default": continue
        m = re.match(r"serde\((.*)\)$", a)
        if not m:
            raise TranslateError(f"{where}: unexpected attribute #[{a}]")
        for it in split_top(m.group(1)):
            key, _, val = it.partition("=")
            items.append((key, val.strip('"')))
    return items


# ------------------------------------------------------------------ index of definitions
class Def:
    def __init__(self, name, kind, file, generics, attrs, body, tail):
        self.name, self.kind, self.file, self.generics, self.attrs, self.body, self.tail = name, kind, file, generics, attrs, body, tail
        ds = [a for a in attrs if a.startswith("derive(")]
        self.derives_serde = all(any(re.search(r"\b" + t + r"\b", d) for d in ds) for t in ("Serialize", "Deserialize"))


def attrs_before(code, pos):
    """attributes (and visibility) immediately before position pos, scanning backwards"""
    i = pos
    attrs = []
    while True:
        j = i
        while j > 0 and code[j - 1].isspace(): j -= 1
        m = re.search(r"pub(\s*\([^)]*\))?$", code[:j])
        if m and (m.start() == 0 or not (code[m.start() - 1].isalnum() or code[m.start() - 1] == "_")):
            i = m.start(); continue
        if j > 0 and code[j - 1] == "]":
            depth, k = 0, j - 1
            while k >= 0:
                if code[k] == "]": depth += 1
                elif code[k] == "[":
                    depth -= 1
                    if depth == 0: break
                k -= 1
            if k > 0 and code[k - 1] == "#":
                attrs.insert(0, re.sub(r"\s+", "", code[k + 1:j - 1])); i = k - 1; continue
        break
    return attrs


def index_file(rel, code, out, customs):
    for m in re.finditer(r"\b(struct|enum)\s+([A-Z][A-Za-z0-9_]*)\s*", code):
        kind, name = m.group(1), m.group(2)
        # not inside an identifier / macro pattern such as `$name`
        i = m.end()
        generics = []
        if i < len(code) and code[i] == "<":
            j = match_brace(code, i, "<", ">")
            for g in split_top(code[i + 1:j]):
                if g.startswith("'") or g.startswith("const "): continue
                generics.append(g.split(":")[0].strip())
            i = j + 1
        rest = code[i:i + 200]
        bm = re.match(r"\s*:\s*(u8|u16|u32|u64)\s*\{", rest)
        attrs = attrs_before(code, m.start())
        if bm and kind == "struct":      # bitflags! { pub struct X: u16 { .. } }
            out.setdefault(name, []).append(Def(name, "bitflags", rel, [], attrs, bm.group(1), "")); continue
        wm = re.match(r"\s*(where[^{;(]*)?", rest)
        i += wm.end()
        if i >= len(code): continue
        if code[i] == "{":
            j = match_brace(code, i)
            out.setdefault(name, []).append(Def(name, kind, rel, generics, attrs, code[i + 1:j], "{"))
        elif code[i] == "(" and kind == "struct":
            j = match_brace(code, i, "(", ")")
            out.setdefault(name, []).append(Def(name, kind, rel, generics, attrs, code[i + 1:j], "("))
        elif code[i] == ";" and kind == "struct":
            out.setdefault(name, []).append(Def(name, kind, rel, generics, attrs, "", ";"))
    for m in re.finditer(r"\bimpl\b([^{;]*?)\b(Serialize|Deserialize(?:<[^>]*>)?)\s+for\s+(?:&\s*)?([A-Z][A-Za-z0-9_]*)", code):
        customs.setdefault(m.group(3), set()).add(rel)


def build_index(subdir="lib/src", exclude=("modules", "tests")):
    root = os.path.join(REPO, subdir)
    defs, customs = {}, {}
    for dp, dns, fns in os.walk(root):
        dns[:] = [d for d in dns if d not in exclude]
        for fn in sorted(fns):
            if not fn.endswith(".rs") or fn in ("tests.rs",): continue
            rel = os.path.relpath(os.path.join(dp, fn), REPO)
            code = strip_comments(src(rel))
            if "Serialize" not in code and "bitflags!" not in code: continue
            index_file(rel, code, defs, customs)
    if not defs: raise TranslateError("no type definitions found under " + subdir)
    return defs, customs


# ------------------------------------------------------------------ shapes
class Shapes:
    """custom: name -> shape for types with hand-written Serialize impls (pinned by the caller);
       custom_fns: (ser_fn, de_fn) -> shape for serialize_with/deserialize_with fields."""
    def __init__(self, defs, customs, custom, custom_fns, external):
        self.defs, self.customs, self.custom, self.custom_fns, self.external = defs, customs, custom, custom_fns, external
        self.named = {}          # type id -> shape
        self.info = {}           # type id -> (file, description)
        self.used_custom, self.used_custom_fns = set(), set()

    def resolve(self, name, near):
        cands = [d for d in self.defs.get(name, []) if d.derives_serde or d.kind == "bitflags"]
        if not cands:
            raise TranslateError(f"type {name} (used in {near}) has no definition deriving Serialize+Deserialize and no registered custom shape")
        if len(cands) > 1:
            same = [d for d in cands if d.file == near] or [d for d in cands if os.path.dirname(d.file) == os.path.dirname(near)]
            if len(same) != 1:
                raise TranslateError(f"type {name} is ambiguous: " + ", ".join(d.file for d in cands))
            cands = same
        return cands[0]

    def shape(self, t, near):
        if t[0] == "tuple":
            return {"k": "tuple", "ts": [self.shape(x, near) for x in t[1]]}
        if t[0] == "array":
            raise TranslateError(f"array type {type_text(t)} in {near}: not supported")
        name, args = t[1], t[2]
        if name in self.custom:
            self.used_custom.add(name)
            return self.custom[name]
        if name in PRIMS and not args:
            if PRIMS[name] is None: raise TranslateError(f"primitive {name} in {near}: not modelled")
            return PRIMS[name]
        if name in TRANSPARENT and len(args) == 1: return self.shape(args[0], near)
        if name == "Option" and len(args) == 1: return {"k": "opt", "t": self.shape(args[0], near)}
        if name in SEQS and len(args) >= 1:
            a = args[0]
            if name == "SmallVec":
                if a[0] != "array": raise TranslateError(f"SmallVec argument not understood in {near}")
                a = a[1]
            es = self.shape(a, near)
            # serde writes Vec<u8> / SmallVec<u8> / &[u8] element by element: length, then one raw
            # byte each, which is byte for byte the `bytes` form (UniverseProofs.seq_u8_is_bytes)
            if es == {"k": "u8"}: return {"k": "bytes"}
            return {"k": "seq", "t": es}
        if name in MAPS and len(args) >= 2:
            return {"k": "map", "key": self.shape(args[0], near), "val": self.shape(args[1], near)}
        if name == "Bound" and len(args) == 1:       # serde: Unbounded | Included(T) | Excluded(T)
            s = self.shape(args[0], near); return {"k": "enum", "ts": [UNIT, s, s]}
        if name in ("RangeInclusive", "Range") and len(args) == 1:   # serde: struct { start, end }
            s = self.shape(args[0], near); return {"k": "tuple", "ts": [s, s]}
        if name in ("RangeFrom", "RangeTo") and len(args) == 1:      # serde: struct { start } / { end }
            return {"k": "tuple", "ts": [self.shape(args[0], near)]}
        if name == "PhantomData": return UNIT
        if name in self.external:
            return self.external[name]
        if name in self.customs and name not in self.defs:
            raise TranslateError(f"type {name} has a hand-written Serialize impl ({', '.join(sorted(self.customs[name]))}) but no registered shape")
        d = self.resolve(name, near)
        if name in self.customs and not d.derives_serde:
            raise TranslateError(f"type {name} has a hand-written Serialize impl but no registered shape")
        if len(args) != len(d.generics):
            raise TranslateError(f"type {type_text(t)} in {near}: {len(d.generics)} generic parameters expected")
        tid = re.sub(r"[^A-Za-z0-9]+", "_", type_text(t)).strip("_")
        if tid not in self.named:
            self.named[tid] = None                     # break cycles
            self.named[tid] = self.def_shape(d, dict(zip(d.generics, args)))
            self.info[tid] = d.file
        return {"k": "named", "n": tid}

    def fields_shape(self, body, env, where, named_fields):
        out, names = [], []
        for it in split_top(body):
            attrs, rest = take_attrs(it)
            if named_fields:
                m = re.match(r"(?:pub(?:\s*\([^)]*\))?\s+)?([a-z_][A-Za-z_0-9]*)\s*:\s*(.+)$", rest, re.S)
                if not m: raise TranslateError(f"{where}: cannot parse field {rest[:60]!r}")
                fname, ftype = m.group(1), m.group(2)
            else:
                fname, ftype = str(len(names)), re.sub(r"^pub(\s*\([^)]*\))?\s+", "", rest)
            skip, ser_fn, de_fn = False, None, None
            for key, val in serde_items(attrs, f"{where}.{fname}"):
                if key == "skip" and not val: skip = True
                elif key == "serialize_with": ser_fn = val
                elif key == "deserialize_with": de_fn = val
                elif key == "default" or key in NEUTRAL_FIELD: pass
                else: raise TranslateError(f"{where}.{fname}: serde attribute {key!r} is not understood")
            names.append((fname, "skip" if skip else ("custom" if ser_fn or de_fn else "plain")))
            if skip: continue
            if ser_fn or de_fn:
                if (ser_fn, de_fn) not in self.custom_fns:
                    raise TranslateError(f"{where}.{fname}: no registered shape for serialize_with={ser_fn} / deserialize_with={de_fn}")
                self.used_custom_fns.add((ser_fn, de_fn))
                out.append(self.custom_fns[(ser_fn, de_fn)]); continue
            out.append(self.shape(subst(parse_type(ftype), env), where))
        return out, names

    def def_shape(self, d, env):
        where = f"{d.file}:{d.name}"
        if d.kind == "bitflags":
            # bitflags 2.x: the flags struct is a newtype of the internal bits type, which
            # serializes as the raw integer for non-human-readable formats
            return PRIMS[d.body]
        for key, val in serde_items([a for a in d.attrs if not a.startswith("derive(") and not a.startswith("repr(") and not a.startswith("non_exhaustive")], where):
            if key == "transparent" or key in NEUTRAL_CONTAINER or key == "default": continue
            raise TranslateError(f"{where}: container attribute serde({key}) is not understood (untagged / tag / content / from / into / remote change the wire format)")
        if d.kind == "struct":
            if d.tail == ";": return UNIT
            fs, names = self.fields_shape(d.body, env, where, d.tail == "{")
            self.info[d.name + "#fields"] = names
            if d.tail == "(" and len(fs) == 1 and len(names) == 1: return fs[0]          # newtype struct: no framing
            return {"k": "tuple", "ts": fs}
        variants = []
        for it in split_top(d.body):
            attrs, rest = take_attrs(it)
            m = re.match(r"([A-Z][A-Za-z0-9_]*)\s*(.*)$", rest, re.S)
            if not m: raise TranslateError(f"{where}: cannot parse variant {rest[:60]!r}")
            vname, tail = m.group(1), m.group(2).strip()
            for key, val in serde_items(attrs, f"{where}::{vname}"):
                if key in NEUTRAL_VARIANT: continue
                raise TranslateError(f"{where}::{vname}: serde attribute {key!r} on a variant is not understood")
            tail = re.sub(r"=\s*[-0-9A-Za-z_x]+\s*$", "", tail).strip()        # explicit discriminant: serde uses the position
            if not tail: variants.append(UNIT)
            elif tail.startswith("("):
                j = match_brace(tail, 0, "(", ")")
                fs, _ = self.fields_shape(tail[1:j], env, f"{where}::{vname}", False)
                variants.append(fs[0] if len(fs) == 1 and len(split_top(tail[1:j])) == 1 else {"k": "tuple", "ts": fs})
            elif tail.startswith("{"):
                j = match_brace(tail, 0)
                fs, _ = self.fields_shape(tail[1:j], env, f"{where}::{vname}", True)
                variants.append({"k": "tuple", "ts": fs})
            else: raise TranslateError(f"{where}: cannot parse variant {rest[:60]!r}")
        return {"k": "enum", "ts": variants}


# ------------------------------------------------------------------ rendering
def coq_shape(s, ref):
    k = s["k"]
    if k == "u8": return "TU8"
    if k == "bool": return "TBool"
    if k == "f64": return "TF64"
    if k == "bytes": return "TBytes"
    if k == "str": return "TStr"
    if k == "uint": return f"(TUInt W{s['w']})"
    if k == "sint": return f"(TSInt W{s['w']})"
    if k == "opt": return f"(TOpt {coq_shape(s['t'], ref)})"
    if k == "seq": return f"(TSeq {coq_shape(s['t'], ref)})"
    if k == "map": return f"(TMap {coq_shape(s['key'], ref)} {coq_shape(s['val'], ref)})"
    if k == "tuple": return "(TTuple [" + "; ".join(coq_shape(x, ref) for x in s["ts"]) + "])"
    if k == "enum": return "(TEnum [" + "; ".join(coq_shape(x, ref) for x in s["ts"]) + "])"
    if k == "named": return ref(s["n"])
    raise TranslateError(f"unknown shape kind {k}")
