"""Shared helpers for the source-to-Gallina translators.

Every translator is a narrow, syntax-directed extraction.  When the Rust
shape it expects is gone it raises TranslateError (never silently emits an
empty table); the driver reports that as "correspondence no longer checks".
"""
import os, re, sys

REPO = os.environ.get("VERIF_REPO", "/repo")
GEN = os.path.join(os.path.dirname(os.path.abspath(__file__)), "..", "coq", "Gen")


class TranslateError(Exception):
    pass


def src(rel):
    p = os.path.join(REPO, rel)
    try:
        with open(p, encoding="utf-8") as f:
            return f.read()
    except OSError as e:
        raise TranslateError(f"cannot read {rel}: {e}")


def strip_comments(s):
    """Remove // line comments and /* */ block comments (string-literal aware
    enough for the code we read: no // inside string literals in the regions
    we translate; checked by the callers' shape tests)."""
    out, i, n = [], 0, len(s)
    while i < n:
        c = s[i]
        if s.startswith("//", i):
            j = s.find("\n", i)
            i = n if j < 0 else j
        elif s.startswith("/*", i):
            j = s.find("*/", i + 2)
            i = n if j < 0 else j + 2
        elif c == '"':
            j = i + 1
            while j < n and s[j] != '"':
                j += 2 if s[j] == "\\" else 1
            out.append(s[i:j + 1]); i = j + 1
        else:
            out.append(c); i += 1
    return "".join(out)


def match_brace(s, i, open_="{", close="}"):
    """s[i] must be the opening bracket; returns index of the matching close."""
    if s[i] != open_:
        raise TranslateError(f"expected {open_!r} at offset {i}, found {s[i:i+20]!r}")
    depth, n = 0, len(s)
    j = i
    while j < n:
        c = s[j]
        if c == '"':
            j += 1
            while j < n and s[j] != '"':
                j += 2 if s[j] == "\\" else 1
        elif c == "'" and j + 2 < n and (s[j + 2] == "'" or (s[j + 1] == "\\" and s[j + 3] == "'")):
            j += 3 if s[j + 2] == "'" else 4
            continue
        elif c == open_:
            depth += 1
        elif c == close:
            depth -= 1
            if depth == 0:
                return j
        j += 1
    raise TranslateError("unbalanced brackets")


def block_after(s, pattern, what=None, start=0):
    """Find regex `pattern` at/after start, then the next '{' and return
    (body_without_braces, start_index, end_index)."""
    m = re.compile(pattern, re.S).search(s, start)
    if not m:
        raise TranslateError(f"pattern not found: {what or pattern}")
    i = s.find("{", m.end() - 1 if s[m.end() - 1] == "{" else m.end())
    if i < 0:
        raise TranslateError(f"no block after {what or pattern}")
    j = match_brace(s, i)
    return s[i + 1:j], i, j


def fn_body(s, name, what=None, start=0):
    """Body of `fn name` (first occurrence at/after start)."""
    m = re.compile(r"\bfn\s+" + re.escape(name) + r"\b").search(s, start)
    if not m:
        raise TranslateError(f"fn {name} not found ({what or ''})")
    # skip the signature: find the '{' that is not inside parens / generics
    i, depth = m.end(), 0
    while i < len(s):
        c = s[i]
        if c in "(<[":
            depth += 1
        elif c in ")>]":
            # '->' contains '>' : do not count it
            if c == ">" and s[i - 1] == "-":
                pass
            else:
                depth -= 1
        elif c == "{" and depth <= 0:
            break
        elif c == ";" and depth <= 0:
            raise TranslateError(f"fn {name} has no body")
        i += 1
    j = match_brace(s, i)
    return s[i + 1:j]


def impl_block(s, header_re, what=None):
    body, _, _ = block_after(s, header_re, what)
    return body


def write_if_changed(name, text):
    os.makedirs(GEN, exist_ok=True)
    p = os.path.join(GEN, name)
    old = None
    if os.path.exists(p):
        with open(p, encoding="utf-8") as f:
            old = f.read()
    if old != text:
        with open(p, "w", encoding="utf-8") as f:
            f.write(text)
    return p


def coq_comment_safe(s):
    return s.replace("(*", "( *").replace("*)", "* )")
